"""C33 Diagnostics point at the offending source text.

Each case plants one known mistake (32 kinds: unresolved identifier, assignment to `let`, break
outside a loop, unexpected token, duplicate / unknown named argument, out-of-range literals,
type conflicts, non-exhaustive and redundant matches, bad escape, unrecognised token incl. a
non-ASCII one, missing arguments, name clash, wrong return type, unknown type, captured-variable
assignment, empty parentheses, unsolved type, pattern of the wrong type, positional after named,
member function on a scalar, import of a missing file ...) at a position the generator knows
exactly, after random filler: comments, block comments and string literals with 2-, 3- and 4-byte
characters and combining marks on earlier lines and on the same line, optionally inside a
function body or in an imported second file.
Oracle: the diagnostic for the planted mistake must name the right file and its primary range
must be exactly the bytes of the marked token/construct; EVERY diagnostic returned must lie
inside its file with both ends on character boundaries; rendering the diagnostics must not
panic. Observed through LspAnalysisResult::errors() and the rendered ErrorSummary."""
import vlib

LEVEL = "exploration"
PROP = "C33"

# (name, message prefix, template with «expected primary range», may be wrapped in a function body)
T = [
    ("unresolved", "Could not resolve identifier", "let a = 1\nprintln(a + «zz9»)\n", True),
    ("assign-let", "Can't modify immutable variable", "let a = 1\n«a» = 2\nprintln(a)\n", True),
    ("break-outside", "This statement must be in a loop", "let a = 1\n«break»\n", True),
    ("continue-outside", "This statement must be in a loop", "fn f() {\n  «continue»\n}\n", False),
    ("unexpected-token", "Unexpected token", "let x = «)»\n", False),
    ("dup-named", "Can't specify a named argument more than once", "fn f(a: int, b: int) -> int = a + b\nlet r = f(a = 1, «a» = 2)\n", False),
    ("unknown-named", "Could not resolve identifier", "fn f(a: int, b: int = 2) -> int = a + b\nlet r = f(1, «zz» = 1)\n", False),
    ("int-range", "Could not parse integer literal", "let x = «99999999999999999999»\n", True),
    ("int-range-separators", "Could not parse integer literal", "let x = «99_999_999_999_999_999_999»\n", True),
    ("conflict-separated-literal", "Variable and assignment do not match", "let total: string = «1_000_000»\n", True),
    ("conflict-separated-float", "Variable and assignment do not match", "let total: string = «1_0.2_5»\n", True),
    ("float-range", "Could not parse float literal", "let x = «1" + "0" * 330 + ".0»\n", True),
    ("conflict-annot", "Variable and assignment do not match", "let x: int = «\"s\"»\n", True),
    ("conflict-binop", "Operands must have the same type", "let x = «1 + \"s\"»\n", True),
    ("non-exhaustive", "This match expression doesn't cover every case", "let b = true\nlet r = «match b { true -> 1 }»\n", True),
    ("redundant-arm", "This match expression has redundant cases", "let b = true\nlet r = «match b { true -> 1, false -> 2, true -> 3 }»\n", True),
    ("bad-escape", "Unrecognized escape sequence", "let s = \"ab«\\q»cd\"\n", True),
    ("bad-escape-after-nonascii", "Unrecognized escape sequence", "let s = \"é€«\\q»cd\"\n", True),
    ("bad-token", "Unrecognized token", "let x = 1 «@» 2\n", True),
    ("bad-token-nonascii", "Unrecognized token", "let x = 1 «€» 2\n", True),
    ("bad-token-4byte", "Unrecognized token", "let x = 1 «🙂» 2\n", True),
    ("too-few-args", "Missing argument: b", "fn f(a: int, b: int) -> int = a\nlet r = «f(1)»\n", False),
    ("name-clash", "`f` was declared more than once", "fn «f»() -> int = 1\nfn f() -> int = 2\n", False),
    ("not-a-function", "Wrong argument type", "let a = 1\nlet r = «a(2)»\n", True),
    ("wrong-return", "Conflicting types", "fn f() -> int {\n  «\"s\"»\n}\n", False),
    ("unknown-type", "Could not resolve identifier", "let x: «Zork» = 1\n", True),
    ("lambda-capture-assign", "Can't assign to a variable captured by a lambda", "var a = 1\nlet f = () -> { «a» = 2 }\n", True),
    ("empty-parens", "Parentheses are empty", "let x = «()»\n", True),
    ("need-annotation", "Can't fully solve type", "let «xs» = []\n", True),
    ("pattern-type", "Match expression input has type", "let b = true\nlet r = match b { «1» -> 1, _ -> 2 }\n", True),
    ("positional-after-named", "Can't use unnamed argument after named arguments", "fn f(a: int, b: int) -> int = a + b\nlet r = f(a = 1, «2»)\n", False),
    ("member-on-int", "Could not resolve member function for type", "let a = 1\nlet b = «a».foo()\n", True),
    ("use-missing", "Could not resolve identifier", "«use nothere»\nlet a = 1\n", False),
    ("unknown-field", "Could not resolve", "type Pt = {\n  x: int\n}\nlet p = Pt(1)\nprintln(p.«zz»)\n", False),
    ("unknown-variant", "Could not resolve", "type Col =\n  | Red\n  | Green\nlet c = Col.«Blue»\n", False),
]

NONASCII = ["é", "ß", "€", "日本語", "🙂", "é", "ñ€🙂", "→", "≈", "…", "😀😀", "Ω", "​", "ascii only", "", "x"]


def filler_line(r, k):
    t = "".join(r.choice(NONASCII) for _ in range(r.range(1, 4)))
    c = r.below(6)
    if c == 0:
        return "// %s" % t
    if c == 1:
        return "/* %s */" % t
    if c == 2:
        return 'let fs%d = "%s"' % (k, t)
    if c == 3:
        return "let fs%d = '%s' .. \"%s\"" % (k, t, t)
    if c == 4:
        return 'println("%s") // %s' % (t, t)
    return "/* %s\n %s */" % (t, t)


def build(r, tmpl, wrap_ok):
    """-> (files, main file of the mistake, lo, hi, features)"""
    name, msg, text, wrappable = tmpl
    feats = []
    lo_m = text.index("«")
    hi_m = text.index("»")
    body = text.replace("«", "").replace("»", "")
    lo_c, hi_c = lo_m, hi_m - 1          # char offsets in body
    # same-line prefix: only when the marked token's line can take a statement in front of it
    line_start = body.rfind("\n", 0, lo_c) + 1
    first_word = body[line_start:].lstrip().split(" ")[0]
    if r.chance(40) and first_word in ("let", "println", "var", "a", "break", "«") and name not in ("use-missing",):
        pre = 'let sl%d = "%s"; ' % (r.range(0, 99), "".join(r.choice(NONASCII) for _ in range(r.range(1, 3))))
        body = body[:line_start] + pre + body[line_start:]
        lo_c += len(pre)
        hi_c += len(pre)
        feats.append("same-line-filler")
    wrap = wrappable and wrap_ok and r.chance(40)
    if wrap:
        lines = body.rstrip("\n").split("\n")
        ind = "  "
        new = "fn wrapper%d() {\n" % r.range(0, 99)
        # recompute offsets: each line gets the indentation
        upto = body[:lo_c]
        nl_before = upto.count("\n")
        head = len(new)
        lo_c = head + lo_c + len(ind) * (nl_before + 1)
        span_nl = body[lo_c - head - len(ind) * (nl_before + 1):hi_c].count("\n")
        hi_c = head + hi_c + len(ind) * (nl_before + 1 + span_nl)
        body = new + "\n".join(ind + l for l in lines) + "\n}\n"
        feats.append("in-function")
    nfill = r.range(0, 5)
    fill = "".join(filler_line(r, k) + "\n" for k in range(nfill))
    if nfill:
        feats.append("filler-lines")
    if name == "use-missing":
        src = body + fill      # `use` must come first
    else:
        src = fill + body
        lo_c += len(fill)
        hi_c += len(fill)
    if r.chance(30) and name != "use-missing" and src.endswith("\n") and hi_c <= len(src.rstrip("\n")):
        # no newline at the end of the file: the marked token may be the very last thing in it
        src = src.rstrip("\n")
        feats.append("no-trailing-newline")
        if hi_c == len(src):
            feats.append("site-ends-the-file")
    lo_b = len(src[:lo_c].encode("utf-8"))
    hi_b = len(src[:hi_c].encode("utf-8"))
    if r.chance(25) and name != "use-missing":
        feats.append("second-file")
        return {"main.abra": "use lib9\nprintln(1)\n", "lib9.abra": src}, "lib9.abra", lo_b, hi_b, feats
    return {"main.abra": src}, "main.abra", lo_b, hi_b, feats


def judge(case, res):
    name, msg, files, fname, lo, hi = case
    cr = vlib.crash_of(res)
    if cr:
        return [("abort", cr[1])]
    l = res.get("lsp") or {}
    if l.get("panic"):
        return [(vlib.panic_sig(l["panic"]), "analysis or rendering panicked: %s" % l["panic"])]
    out = []
    hit = False
    for d in l.get("diags") or []:
        f = d["file"].rsplit("/", 1)[-1]
        src = files.get(f)
        if src is None:
            if f.endswith("prelude.abra") or "core/" in d["file"]:
                out.append(("foreign-file", "diagnostic %r placed in %s" % (d["message"][:60], d["file"])))
            continue
        b = src.encode("utf-8")
        if not (0 <= d["lo"] <= d["hi"] <= len(b)):
            out.append(("outside-file", "diagnostic %r has range [%d,%d) outside the file of %d bytes" % (d["message"][:60], d["lo"], d["hi"], len(b))))
            continue
        for pos in (d["lo"], d["hi"]):
            if pos < len(b) and (b[pos] & 0xC0) == 0x80:
                out.append(("char-boundary", "diagnostic %r has range [%d,%d): offset %d is inside a multi-byte character" % (d["message"][:60], d["lo"], d["hi"], pos)))
                break
        if d["message"].startswith(msg) and f == fname and not hit:
            if (d["lo"], d["hi"]) == (lo, hi):
                hit = True
        elif d["message"].startswith(msg) and f != fname:
            out.append(("wrong-file", "diagnostic %r reported in %s, the mistake is in %s" % (d["message"][:60], f, fname)))
    if not hit:
        got = [(d["message"][:50], d["file"].rsplit("/", 1)[-1], d["lo"], d["hi"], files.get(d["file"].rsplit("/", 1)[-1], "").encode()[d["lo"]:d["hi"]].decode("utf-8", "replace")[:40])
               for d in (l.get("diags") or [])]
        out.append(("range", "no diagnostic %r with primary range [%d,%d) = %r in %s; got %s" % (
            msg, lo, hi, files[fname].encode()[lo:hi].decode("utf-8", "replace")[:60], fname, got[:5])))
    seen, uniq = set(), []
    for c, w in out:
        if c not in seen:
            seen.add(c)
            uniq.append((c, w))
    return uniq


# programs cut off in the middle: the diagnostic is about the END of the file
EOF_BODIES = [
    "fn", "fn f(", "fn f(a: int", "fn f() {", "let x =", "let x = (1 +", "let x = [1,", "type Pt = {", "type Pt = {\n  x: int",
    "match 1 {", "match 1 {\n  1 ->", "if true {", "while true {", "for i in", "let s = foo(", "extend int {", "implement ToString for int {",
    "let f = (a, b) ->", "println(", "let t = (1, ", "type Col = |", "let x = 1 +", "use", "interface Sh {", "let q = not",
]
EOF_TAILS = ["", " ", "\n", " // é", " // 日本語", " /* € */", " /* 🙂", "\n// ñ", " // x", "\t", " /* é */ ", "\n\n// 😀😀", " 'é", ' "日本', " // a\u0301"]


def eof_case(r):
    nfill = r.range(0, 3)
    src = "".join(filler_line(r, k) + "\n" for k in range(nfill)) + r.choice(EOF_BODIES) + r.choice(EOF_TAILS)
    return {"main.abra": src}


def judge_wellformed(files, res):
    """the part of the oracle that needs no expected range"""
    return [(c, w) for c, w in judge(("eof", "\0never", files, "main.abra", -1, -1), res) if c != "range"]


def run(ctx):
    r0 = ctx.rng.fork("c33")
    per = 60 if ctx.quick else 1200
    cases, jobs = [], []
    # ---- end-of-file family: no expected range, every diagnostic must be well-formed
    neof = 600 if ctx.quick else 12000
    ecases, ejobs = [], []
    for i in range(neof):
        files = eof_case(r0.fork("eof", i))
        ecases.append(files)
        ejobs.append({"id": "e%05d" % i, "mode": "lsp", "files": files, "render": True})
    eres = ctx.run(ejobs)
    eof_ok = eof_diags = eof_at_nonascii_end = 0
    for files, job in zip(ecases, ejobs):
        res = eres[job["id"]]
        found = judge_wellformed(files, res)
        diags = (res.get("lsp") or {}).get("diags") or []
        eof_diags += len(diags)
        for cls, what in found:
            sig = "%s eof %s %s" % (PROP, cls, vlib.hhex(files["main.abra"])[:8])
            ctx.candidate(sig, what + "\n--- main.abra ---\n" + files["main.abra"], job,
                          lambda rr, files=files, sig=sig, cls=cls: [(sig, w) for c, w in judge_wellformed(files, rr) if c == cls])
        if not found and diags:
            eof_ok += 1
            if ord(files["main.abra"][-1]) > 127:
                eof_at_nonascii_end += 1
    for ti, tmpl in enumerate(T):
        for i in range(per):
            files, fname, lo, hi, feats = build(r0.fork(tmpl[0], i), tmpl, True)
            cases.append((tmpl[0], tmpl[1], files, fname, lo, hi, feats))
            jobs.append({"id": "d%02d-%04d" % (ti, i), "mode": "lsp", "files": files, "render": True})
    results = ctx.run(jobs)
    ok = 0
    feats_h = {}
    kinds_ok = {}
    nonascii_before = 0
    ndiags = 0
    for case, job in zip(cases, jobs):
        res = results[job["id"]]
        found = judge(case[:6], res)
        ndiags += len((res.get("lsp") or {}).get("diags") or [])
        for cls, what in found:
            sig = "%s %s %s" % (PROP, case[0], cls)
            ctx.candidate(sig, what + "\n--- files ---\n" + "\n".join("## %s\n%s" % kv for kv in case[2].items()), job,
                          lambda rr, case=case, sig=sig, cls=cls: [(sig, w) for c, w in judge(case[:6], rr) if c == cls])
        if not found:
            ok += 1
            kinds_ok[case[0]] = kinds_ok.get(case[0], 0) + 1
            for f in case[6]:
                feats_h[f] = feats_h.get(f, 0) + 1
            src = case[2][case[3]]
            if any(ord(ch) > 127 for ch in src.encode("utf-8")[:case[4]].decode("utf-8", "ignore")):
                nonascii_before += 1
    ctx.coverage(
        evaluations=len(cases) + len(ecases),
        distinct_nontrivial=ok + eof_ok,
        rule="case = (kind of mistake, random filler and placement); all cases are distinct programs; distinct = cases whose planted mistake "
             "was reported in the right file with exactly the expected primary byte range and whose every diagnostic was well-formed",
        samples=[{"kind": cases[0][0], "files": cases[0][2], "expected_range": [cases[0][4], cases[0][5]]},
                 {"kind": cases[-1][0], "files": cases[-1][2], "expected_range": [cases[-1][4], cases[-1][5]]}],
        kinds_confirmed=kinds_ok,
        placements=feats_h,
        cases_with_non_ascii_before_the_site=nonascii_before,
        diagnostics_checked=ndiags + eof_diags,
        cut_off_programs_with_wellformed_diagnostics=eof_ok,
        cut_off_programs_ending_in_a_multibyte_character=eof_at_nonascii_end,
    )
    ctx.need(eof_at_nonascii_end >= 50 or bool(ctx.candidates), "fewer than 50 cut-off programs ending in a multi-byte character were diagnosed")
    ctx.need(ok >= 0.9 * len(cases) or bool(ctx.candidates), "fewer than 90% of the cases confirmed")
    ctx.need(nonascii_before >= 100, "fewer than 100 cases with non-ASCII text before the site")


def replay(ctx, rep):
    res = ctx.ex.run_alone(rep["job"])
    print(__import__("json").dumps(res)[:3000])
