"""C23 `?` and `!` follow option/result semantics.

Oracle: the reference interpreter (checks/progen.py): `e?` yields the payload of some/ok, or makes
the enclosing function return none / the same err at once; `e!` yields the payload or stops the
program with the documented panic. Workload: checks/trygen.py - functions returning option<int>,
result<int,string>, option<string>, result<void,string>, option<void> whose marker-separated
statements apply `?`/`!` as a statement, as left/right/both operands, in every argument position,
on nested calls, in for/while bodies, match arms, if branches and conditions, and inside blocks
used as operands (incl. void payloads while temporaries are live); main calls them on success
and failure inputs and uses `!` at top level. Every helper prints a marker, so evaluation order and
"the rest of the body does not run" are part of the compared output. Kernels: custom Try
implementation, `?` on option inside a lambda-free nested function, `!` messages."""
import vlib
from checks import progen, proglib, trygen
from checks.common import Case, observe, judge_case

LEVEL = "translation_validation"
PROP = "C23"

KERNELS = {
    "custom-try-impl": ("""type Status =
  | Bad(int)
  | Fine(int)
implement Try for Status {
  fn branch(self) -> ControlFlow<Status, Status> {
    match self {
      .Bad(_) -> .Break(self)
      .Fine(_) -> .Continue(self)
    }
  }
  fn from_residual(r: Status) -> Status {
    r
  }
}
fn step(n: int) -> Status { if n > 2 { Status.Bad(n) } else { Status.Fine(n) } }
fn run(k: int) -> Status {
  print("a")
  step(k)?
  print("b")
  step(k + 1)?
  print("c")
  Status.Fine(99)
}
fn show(s: Status) -> string {
  match s {
    .Bad(n) -> "Bad" .. n
    .Fine(n) -> "Fine" .. n
  }
}
println(show(run(1)))
println(show(run(2)))
println(show(run(5)))
""", "abcFine99\nabBad3\naBad5\n"),
    "unwrap-messages": ("""let a: option<int> = option.some(4)
let b: result<int, string> = result.ok(5)
println(a! + b!)
let c: result<int, string> = result.err("why")
println(c!)
""", ("err", "panic", "cannot unwrap result.err", "9\n")),
    "unwrap-none-message": ("""let a: option<string> = option.none
println("before")
println(a!)
println("after")
""", ("err", "panic", "cannot unwrap option.none", "before\n")),
    "void-payload-in-loops": ("""fn ov(x: int) -> option<void> { if x == 4 { option.none } else { option.some(nil) } }
fn rv(x: int) -> result<void, string> { if x > 5 { result.err("big" .. x) } else { result.ok(nil) } }
fn all_ok(xs: array<int>) -> result<int, string> {
  var n = 0
  for x in xs {
    rv(x)?
    ov(x)!
    n = n + x
  }
  result.ok(n)
}
for i in [1, 2] {
  ov(i)!
  println(i)
}
println(all_ok([1, 2, 3]))
println(all_ok([1, 9, 3]))
println(all_ok([1, 4]))
""", ("err", "panic", "cannot unwrap option.none", "1\n2\nok(6)\nerr(big9)\n")),
}


def job_of(jid, src):
    return {"id": jid, "files": {"main.abra": src}, "runs": [{"max_steps": 1500000}, {"max_steps": 1500000, "budget": {"k": 3}}]}


def judge_prog(prog, res):
    comp = res.get("compile", {})
    cr = vlib.crash_of(res)
    if cr:
        return ("crash", cr[1])
    if not comp.get("ok"):
        if comp.get("panic"):
            return ("compile-panic", "compiler panic %s" % vlib.panic_sig(comp["panic"]))
        return ("rejected", "generated program was rejected: %s" % comp.get("errors", "")[:300])
    try:
        ref = progen.interpret(prog)
    except (progen.Unsupported, progen.TooBig, RecursionError):
        return None
    for run in res["runs"]:
        v = proglib.compare(ref, prog["final_ty"], run)
        if v:
            return v
    return None


def shrink(ctx, prog, cls):
    def fails(cands):
        jobs = []
        for i, c in enumerate(cands):
            try:
                s, _ = progen.emit(c)
            except Exception:
                s = "@@"
            jobs.append(job_of("s%04d" % i, s))
        rs = ctx.run(jobs)
        out = []
        for i, c in enumerate(cands):
            try:
                v = judge_prog(c, rs["s%04d" % i])
            except Exception:
                v = None
            out.append(bool(v) and v[0] == cls)
        return out
    return progen.shrink(prog, fails)


def kernel_judge(name, exp):
    def kj(res):
        sig = "%s kernel:%s" % (PROP, name)
        cr = vlib.crash_of(res)
        if cr:
            return [(sig, cr[1])]
        comp = res.get("compile", {})
        if not comp.get("ok"):
            return [(sig, "kernel did not compile: %s" % (comp.get("panic") or comp.get("errors", "")[:300]))]
        for run in res["runs"]:
            ob = observe(run)
            if isinstance(exp, tuple):
                ok = ob[0] == "err" and ob[1] == exp[1] and ob[2] == exp[2] and ob[3] == exp[3]
                if not ok:
                    return [(sig, "expected %r, observed %r" % (exp, ob))]
            else:
                w = judge_case(Case(name, "", ("out", exp)), ob)
                if w:
                    return [(sig, w)]
        return []
    return kj


def run(ctx):
    n = 2500 if ctx.quick else 50000
    r0 = vlib.Rng(ctx.seed * 2311 + 23)
    progs = []
    for i in range(n):
        g = trygen.TryGen(r0.fork(i))
        prog = g.gen()
        src, _ = progen.emit(prog)
        progs.append((i, prog, src))
    results = ctx.run([job_of("p%06d" % i, src) for (i, prog, src) in progs])
    evals = agree = 0
    distinct = set()
    feats = {}
    endings = {"completed": 0, "panic": 0}
    early_returns = 0
    disagreements = []
    for (i, prog, src) in progs:
        res = results["p%06d" % i]
        evals += 1
        v = judge_prog(prog, res)
        if v is None:
            agree += 1
            distinct.add(vlib.h64(src))
            for f in prog["features"]:
                feats[f] = feats.get(f, 0) + 1
            out = (res["runs"][0].get("output") or "")
            endings["panic" if res["runs"][0].get("status") == "error" else "completed"] += 1
            early_returns += out.count("none\n") + out.count("err(")
        else:
            disagreements.append((i, prog, src, v))
    seen = {}
    for (i, prog, src, v) in disagreements[:(8 if ctx.quick else 40)]:
        small = shrink(ctx, prog, v[0])
        ssrc, _ = progen.emit(small)
        sig = "%s %s %s" % (PROP, v[0], vlib.hhex(proglib.normalize(ssrc)))
        if sig in seen:
            continue
        seen[sig] = True
        ctx.candidate(sig, "%s\n--- minimal program ---\n%s" % (v[1], ssrc), job_of("confirm", ssrc),
                      lambda res, small=small, sig=sig: [(sig, judge_prog(small, res)[1])] if judge_prog(small, res) else [])
    kjobs = [job_of("k-" + name, src) for name, (src, exp) in KERNELS.items()]
    kres = ctx.run(kjobs)
    for (name, (src, exp)), job in zip(KERNELS.items(), kjobs):
        kj = kernel_judge(name, exp)
        evals += 1
        for sig, what in kj(kres[job["id"]]):
            ctx.candidate(sig, what + "\n--- program ---\n" + src, job, kj)
    ctx.coverage(
        evaluations=evals,
        distinct_nontrivial=len(distinct),
        rule="programs from checks/trygen.py (each executed unsliced and with budget 3); distinct = distinct sources whose output, "
             "incl. evaluation-order markers, and error agreed with the reference interpreter; plus %d named kernels" % len(KERNELS),
        samples=[{"program": progs[0][2]}],
        agreeing=agree,
        disagreements_checked=len(disagreements),
        positions_and_forms=dict(sorted(feats.items())),
        program_endings=endings,
        early_returns_observed=early_returns,
        kernels=sorted(KERNELS),
    )
    ctx.need(agree >= 500, "fewer than 500 programs observed agreeing")
    ctx.need(endings["panic"] >= 50 and early_returns >= 500, "too few failing `!` / early returns observed")


def replay(ctx, rep):
    res = ctx.ex.run_alone(rep["job"])
    print(__import__("json").dumps(res)[:3000])
