"""C20 Immutable bindings cannot be assigned, and assignment never crashes.

Exhaustive: binding form (incl. the scopes between the declaration and the assigning code or
the capturing lambda: if / for / while / match arm / block / nested) x assignment operator x
value type x enclosing context. Expectations
from the statement: `let` (also destructured) and variables captured by a lambda => rejected with
a diagnostic; `var`, array elements and struct fields => accepted with the arithmetic effect;
every other form (for variable, parameters, match / or-pattern bindings, task captures) => either
rejected or accepted with the plain effect. A compiler panic or VM fault is always a violation."""
import vlib
from checks.common import observe

LEVEL = "fault_enumeration"
OPS = ["=", "+=", "-=", "*=", "/=", "%="]
TYPES = {
    "int": dict(init="10", rhs="3", ann="int", eff={"=": "3", "+=": "13", "-=": "7", "*=": "30", "/=": "3", "%=": "1"}),
    "float": dict(init="10.0", rhs="4.0", ann="float", eff={"=": "4", "+=": "14", "-=": "6", "*=": "40", "/=": "2.5"}),
    "string": dict(init='"ab"', rhs='"cd"', ann="string", eff={"=": "cd"}),
}
CONTEXTS = ["top", "fn", "lambda", "task"]
DECLS = "type Bx = {\n  v: int\n}\ntype Bf = {\n  v: float\n}\ntype Bs = {\n  v: string\n}\n"
BOXN = {"int": "Bx", "float": "Bf", "string": "Bs"}


def form_code(form, ty, op):
    """-> (statements, required) required in {'reject','effect','either','nocrash'}; the statements
    print the final value with println"""
    t = TYPES[ty]
    a = "x %s %s" % (op, t["rhs"])
    i = t["init"]
    if form == "let":
        return ["let x = %s" % i, a, "println(x)"], "reject"
    if form == "var":
        return ["var x = %s" % i, a, "println(x)"], "effect"
    if form == "var-annotated":
        return ["var x: %s = %s" % (t["ann"], i), a, "println(x)"], "effect"
    if form == "for-var":
        return ["for x in [%s] {" % i, "  " + a, "  println(x)", "}"], "either"
    if form == "fn-param":
        return ["fn gg(x: %s) {" % t["ann"], "  " + a, "  println(x)", "}", "gg(%s)" % i], "either"
    if form == "lambda-param":
        return ["let gg = (x: %s) -> {" % t["ann"], "  " + a, "  println(x)", "}", "gg(%s)" % i], "either"
    if form == "match-binding":
        return ["match %s {" % i, "  x -> {", "    " + a, "    println(x)", "  }", "}"], "either"
    if form == "or-binding":
        return ["match (%s, true) {" % i, "  (x, true) | (x, false) -> {", "    " + a, "    println(x)", "  }", "}"], "either"
    if form == "let-destructured":
        return ["let (x, y) = (%s, 1)" % i, a, "println(x)"], "reject"
    if form == "var-destructured":
        return ["var (x, y) = (%s, 1)" % i, a, "println(x)"], "effect"
    if form == "lambda-capture":
        return ["var x = %s" % i, "let gg = () -> {", "  " + a, "}", "gg()", "println(x)"], "reject"
    if form == "lambda-capture-let":
        return ["let x = %s" % i, "let gg = () -> {", "  " + a, "}", "gg()", "println(x)"], "reject"
    if form == "task-capture":
        return ["var x = %s" % i, "let dn: channel<int> = channel()", "task {", "  " + a, "  dn.write(1)", "}", "let q = dn.read()", "println(q)"], "nocrash"
    if form == "array-elem":
        return ["let xs = [%s, %s]" % (i, i), "xs[0] %s %s" % (op, t["rhs"]), "println(xs[0])"], "effect"
    if form == "array-elem-var-index":
        return ["let xs = [%s, %s]" % (i, i), "var k = 1", "xs[k] %s %s" % (op, t["rhs"]), "println(xs[1])"], "effect"
    if form == "struct-field":
        return ["let s = %s(%s)" % (BOXN[ty], i), "s.v %s %s" % (op, t["rhs"]), "println(s.v)"], "effect"
    if form == "nested-field-elem":
        return ["let ss = [%s(%s)]" % (BOXN[ty], i), "ss[0].v %s %s" % (op, t["rhs"]), "println(ss[0].v)"], "effect"
    if form == "captured-array-elem":
        return ["let xs = [%s]" % i, "let gg = () -> {", "  xs[0] %s %s" % (op, t["rhs"]), "}", "gg()", "println(xs[0])"], "effect"
    if form == "captured-struct-field":
        return ["let s = %s(%s)" % (BOXN[ty], i), "let gg = () -> {", "  s.v %s %s" % (op, t["rhs"]), "}", "gg()", "println(s.v)"], "effect"
    # placement of the assigning code relative to the declaration (scopes in between)
    NEST = {
        "if": (["if true {"], ["}"]),
        "for": (["for q_ in 1 {"], ["}"]),
        "while": (["var w_ = 0", "while w_ < 1 {", "  w_ += 1"], ["}"]),
        "match-arm": (["match 1 {", "  _ -> {"], ["  }", "}"]),
        "block": (["let u_ = {"], ["  0", "}"]),
        "for-if": (["for q_ in 1 {", "  if true {"], ["  }", "}"]),
        "if-else-branch": (["if false {", "} else {"], ["}"]),
    }
    for nest, (pre, post) in NEST.items():
        lam = ["  let gg = () -> {", "    " + a, "  }", "  gg()"]
        if form == "lambda-capture-in-" + nest:
            return ["var x = %s" % i] + pre + lam + post + ["println(x)"], "reject"
        if form == "lambda-capture-let-in-" + nest:
            return ["let x = %s" % i] + pre + lam + post + ["println(x)"], "reject"
        if form == "let-assign-in-" + nest:
            return ["let x = %s" % i] + pre + ["  " + a] + post + ["println(x)"], "reject"
        if form == "var-assign-in-" + nest:
            return ["var x = %s" % i] + pre + ["  " + a] + post + ["println(x)"], "effect"
    if form == "lambda-capture-nested-lambda":
        return ["var x = %s" % i, "let gg = () -> {", "  let hh = () -> {", "    " + a, "  }", "  hh()", "}", "gg()", "println(x)"], "reject"
    if form == "lambda-capture-nested-lambda-in-if":
        return ["var x = %s" % i, "let gg = () -> {", "  if true {", "    let hh = () -> {", "      " + a, "    }", "    hh()", "  }", "}", "gg()", "println(x)"], "reject"
    if form == "lambda-capture-param":
        return ["let gg = (x: %s) -> {" % t["ann"], "  let hh = () -> {", "    " + a, "  }", "  hh()", "  println(x)", "}", "gg(%s)" % i], "reject"
    if form == "lambda-capture-for-var":
        return ["for x in [%s] {" % i, "  let hh = () -> {", "    " + a, "  }", "  hh()", "  println(x)", "}"], "reject"
    if form == "lambda-capture-match-binding":
        return ["match %s {" % i, "  x -> {", "    let hh = () -> {", "      " + a, "    }", "    hh()", "    println(x)", "  }", "}"], "reject"
    if form == "lambda-local-var":
        # a var declared inside the lambda is the lambda's own: assignable
        return ["let gg = () -> {", "  var x = %s" % i, "  if true {", "    " + a, "  }", "  println(x)", "}", "gg()"], "effect"
    raise ValueError(form)


_NESTS = ["if", "for", "while", "match-arm", "block", "for-if", "if-else-branch"]
FORMS = [f + n for n in _NESTS for f in ("lambda-capture-in-", "lambda-capture-let-in-", "let-assign-in-", "var-assign-in-")] + [
    "lambda-capture-nested-lambda", "lambda-capture-nested-lambda-in-if", "lambda-capture-param", "lambda-capture-for-var",
    "lambda-capture-match-binding", "lambda-local-var"] + ["let", "var", "var-annotated", "for-var", "fn-param", "lambda-param", "match-binding", "or-binding", "let-destructured", "var-destructured",
         "lambda-capture", "lambda-capture-let", "task-capture", "array-elem", "array-elem-var-index", "struct-field", "nested-field-elem",
         "captured-array-elem", "captured-struct-field"]


def wrap(ctxname, stmts):
    body = "\n".join(stmts)
    ind = "\n".join("  " + s for s in stmts)
    if ctxname == "top":
        return DECLS + body + "\n"
    if ctxname == "fn":
        return DECLS + "fn outer() {\n%s\n}\nouter()\n" % ind
    if ctxname == "lambda":
        return DECLS + "let outer = () -> {\n%s\n}\nouter()\n" % ind
    if ctxname == "task":
        return DECLS + "let fin: channel<int> = channel()\ntask {\n%s\n  fin.write(0)\n}\nlet r = fin.read()\n" % ind
    raise ValueError(ctxname)


def judge(res, required, effect):
    cr = vlib.crash_of(res)
    if cr:
        return "process aborted: " + cr[1]
    c, k = res.get("check", {}), res.get("compile", {})
    if c.get("panic") or k.get("panic"):
        return "compiler panic: %s" % (c.get("panic") or k.get("panic"))
    accepted = bool(c.get("ok"))
    if accepted != bool(k.get("ok")):
        return "check and compile_bytecode disagree: check ok=%s compile ok=%s (%s)" % (c.get("ok"), k.get("ok"), (k.get("errors") or "")[:150])
    if required == "reject":
        return None if not accepted else "assignment to an immutable binding was accepted"
    if not accepted:
        if required == "effect":
            return "assignment that must be accepted was rejected: %s" % (c.get("errors") or "")[:200]
        return None
    run = (res.get("runs") or [None])[0]
    if run is None:
        return None
    ob = observe(run)
    if ob[0] == "fault":
        return "VM fault: %s" % (ob[1],)
    if required == "nocrash":
        return None
    if effect is None:
        return None
    if ob[0] != "out" or ob[1] != effect + "\n":
        return "expected the plain effect %r, observed %r" % (effect + "\n", ob[:2])
    return None


def run(ctx):
    jobs, meta = [], {}
    n = 0
    for form in FORMS:
        # forms that define functions cannot sit inside another function body
        for ty in TYPES:
            for op in OPS:
                for cx in CONTEXTS:
                    if form == "fn-param" and cx != "top":
                        continue
                    if ctx.quick and ty != "int" and ("-in-" in form or form.startswith("lambda-capture-") or form == "lambda-local-var"):
                        continue  # placement forms: other value types in the thorough tier
                    stmts, required = form_code(form, ty, op)
                    eff = TYPES[ty]["eff"].get(op)
                    if eff is None and required == "effect":
                        required = "either"  # e.g. `+=` on strings: the statement does not say
                        eff = None
                    src = wrap(cx, stmts)
                    key = "form=%s type=%s op=%s ctx=%s" % (form, ty, op, cx)
                    jid = "a%05d" % n
                    n += 1
                    # one job that checks, compiles and (if accepted) runs
                    jobs.append({"id": jid, "also_check": True, "files": {"main.abra": src}, "runs": [{"budget": {"k": 50}, "max_steps": 200000}]})
                    meta[jid] = (key, required, eff, src)
    results = ctx.run(jobs)
    kinds = {"reject": 0, "effect": 0, "either": 0, "nocrash": 0}
    accepted_n = 0

    def merged(jid, results):
        return results[jid]
    for jid, (key, required, eff, src) in meta.items():
        res = merged(jid, results)
        kinds[required] += 1
        if res.get("check", {}).get("ok"):
            accepted_n += 1
        why = judge(res, required, eff)
        if why:
            sig = "C20 " + key
            job = {"id": "confirm", "also_check": True, "files": {"main.abra": src}, "runs": [{"budget": {"k": 50}, "max_steps": 200000}]}

            def j(res2, required=required, eff=eff, sig=sig):
                w = judge(res2, required, eff)
                return [(sig, w)] if w else []
            ctx.candidate(sig, why + "\n--- program ---\n" + src, job, j)
    ctx.coverage(
        evaluations=len(meta),
        distinct_nontrivial=len(meta),
        rule="case = (binding form, operator, value type, context); the full product is enumerated; each case is checked, compiled and, "
             "when accepted, executed; distinct = cases judged against the statement's expectation for their form",
        samples=[{"case": meta["a00000"][0], "program": meta["a00000"][3]}, {"case": meta["a%05d" % (n - 1)][0], "program": meta["a%05d" % (n - 1)][3]}],
        expectation_kinds=kinds,
        accepted_by_compiler=accepted_n,
        exhaustive=True,
    )


def replay(ctx, rep):
    res = ctx.ex.run_alone(rep["job"])
    print(__import__("json").dumps(res)[:3000])
