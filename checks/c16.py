"""C16 Float arithmetic, conversions and comparisons follow the spec.

Oracle: IEEE binary64 arithmetic of the host (python floats for + - * /, glibc libm through ctypes
for ^ and the intrinsics - the same library the VM calls), exact integer arithmetic for the
conversions, and a law checker for the comparison operators. Results are compared bit-exactly
through the printed shortest round-trip text (NaN as a class)."""
import ctypes
import math
import struct
from decimal import Decimal

from checks.common import Case, run_cases, observe

LEVEL = "exploration"
libm = ctypes.CDLL("libm.so.6")
for _n in ("pow", "atan2"):
    getattr(libm, _n).restype = ctypes.c_double
    getattr(libm, _n).argtypes = [ctypes.c_double, ctypes.c_double]
UNARY = {"sqrt": "sqrt", "sin": "sin", "cos": "cos", "tan": "tan", "asin": "asin", "acos": "acos", "atan": "atan",
         "log": "log", "log2": "log2", "log10": "log10", "ceil": "ceil", "floor": "floor", "round": "round"}
for _n in UNARY.values():
    getattr(libm, _n).restype = ctypes.c_double
    getattr(libm, _n).argtypes = [ctypes.c_double]

INF = float("inf")
NAN = float("nan")


def bits(f):
    return struct.unpack("<Q", struct.pack("<d", f))[0]


def from_bits(b):
    return struct.unpack("<d", struct.pack("<Q", b))[0]


def fset(ctx):
    eps = 2.0 ** -52
    xs = [0.0, -0.0, 5e-324, -5e-324, 2.2250738585072014e-308, -2.2250738585072014e-308, 1.0, -1.0, 1.0 + eps,
          1.0 - eps / 2, -(1.0 + eps), 0.1, 1.0 / 3.0, 0.5, 2.0, -2.0, 3.0, 10.0, 2.0 ** 53, 2.0 ** 53 + 2.0,
          -(2.0 ** 53), 1.7976931348623157e308, -1.7976931348623157e308, 8.98846567431158e307, 1e308, 1e-308, 1e16,
          123456.789, -0.75, 9.223372036854775807e18, 1024.0, 0.2, 0.3]
    r = ctx.rng.fork("floats")
    n = 6 if ctx.quick else 24
    while n > 0:
        f = from_bits(r.next())
        if f == f and abs(f) != INF:
            xs.append(f)
            n -= 1
    return xs


def lit(f):
    """exact decimal literal (digits '.' digits), parenthesised when negative"""
    d = Decimal(f)
    s = format(abs(d), "f")
    if "." not in s:
        s += ".0"
    if math.copysign(1.0, f) < 0:
        return "(-%s)" % s
    return s


SPECIAL = {"inf": "verif_inf()", "-inf": "verif_ninf()", "nan": "verif_nan()"}
DECLS = ("fn verif_idf(x: float) -> float = x\n"
         "fn verif_inf() -> float { let m = verif_idf(1.7976931348623157e308)\n m * 2.0 }\n".replace("1.7976931348623157e308", lit(1.7976931348623157e308))
         + "fn verif_ninf() -> float { 0.0 - verif_inf() }\n"
         "fn verif_nan() -> float { verif_inf() - verif_inf() }\n"
         "fn verif_bit(x: bool) -> string = if x { \"1\" } else { \"0\" }\n")


def spell(v, form_is_lit):
    """Abra expression for operand v: literal or through a function (so nothing folds)."""
    if isinstance(v, str):
        return SPECIAL[v]
    return lit(v) if form_is_lit else "verif_idf(%s)" % lit(v)


def val(v):
    return {"inf": INF, "-inf": -INF, "nan": NAN}[v] if isinstance(v, str) else v


def expect_float(r):
    """expectation closure comparing printed text with the reference float bit-exactly"""
    def chk(obs, r=r):
        if obs[0] != "out":
            return "expected a float result %r, observed %r" % (r, obs[:3])
        t = obs[1].strip()
        try:
            got = float(t)
        except ValueError:
            return "unparsable float output %r" % t
        if r != r:
            return None if got != got else "expected NaN, got %r" % t
        if got != got or bits(got) != bits(r):
            return "expected %r (bits %016x), printed %r" % (r, bits(r), t)
        return None
    return chk


def arith_ref(op, a, b):
    if op == "+":
        return a + b
    if op == "-":
        return a - b
    if op == "*":
        return a * b
    if op == "/":
        return None if b == 0.0 else a / b
    if op == "^":
        return libm.pow(a, b)


def key_of(v):
    return v if isinstance(v, str) else "%016x" % bits(v)


def gen_arith(ctx, F):
    cases = []
    ops = ("+", "-", "*", "/", "^")
    vals = F + ["inf", "-inf", "nan"]
    n = 0
    for a in vals:
        for b in vals:
            n += 1
            for op in ops:
                r = arith_ref(op, val(a), val(b))
                exp = ("err", "divzero") if r is None else expect_float(r)
                forms = ["vv", "ll", "vl", "lv", "asg"]
                if ctx.quick:
                    forms = ["vv", forms[1 + (n % 4)]]
                for f in forms:
                    la = f in ("ll", "lv")
                    lb = f in ("ll", "vl")
                    if (la and isinstance(a, str)) or (lb and isinstance(b, str)):
                        continue
                    if f == "asg":
                        if op == "^":
                            continue
                        body = "var a = %s\na %s= %s\nprintln(a)" % (spell(a, False), op, spell(b, True if not isinstance(b, str) else False))
                    else:
                        body = "println(%s %s %s)" % (spell(a, la), op, spell(b, lb))
                    cases.append(Case("arith op=%s form=%s a=%s b=%s" % (op, f, key_of(a), key_of(b)), body, exp, DECLS))
    return cases


def gen_intrinsics(ctx, F):
    cases = []
    for a in F + ["inf", "-inf", "nan"]:
        for name, cname in UNARY.items():
            r = getattr(libm, cname)(val(a))
            for f in ("v", "l"):
                if f == "l" and isinstance(a, str):
                    continue
                cases.append(Case("fn=%s form=%s a=%s" % (name, f, key_of(a)),
                                  "println(%s(%s))" % (name, spell(a, f == "l")), expect_float(r), DECLS))
    sub = F[:12] + ["inf", "nan"]
    for a in sub:
        for b in sub:
            r = libm.atan2(val(a), val(b))
            cases.append(Case("fn=atan2 a=%s b=%s" % (key_of(a), key_of(b)),
                              "println(atan2(%s, %s))" % (spell(a, False), spell(b, False)), expect_float(r), DECLS))
    return cases


def gen_conv(ctx):
    cases = []
    MIN, MAX = -(1 << 63), (1 << 63) - 1
    ints = [0, 1, -1, 2 ** 53, 2 ** 53 + 1, 2 ** 53 + 2, 2 ** 53 + 3, -(2 ** 53 + 1), MAX, MAX - 1, MIN, MIN + 1,
            2 ** 62 + 1, 10 ** 18 + 1, 9007199254740993, 4611686018427387905, 123456789012345678]
    r = ctx.rng.fork("ints")
    for _ in range(30 if ctx.quick else 400):
        ints.append(r.next() - (1 << 63))
    for i in ints:
        ref = float(i)  # correctly rounded (round-half-even) by python for ints
        lit_i = "(%d)" % i if i < 0 else "%d" % i
        cases.append(Case("float_from_int lit i=%d" % i, "println(float_from_int(%s))" % lit_i, expect_float(ref)))
        cases.append(Case("float_from_int var i=%d" % i, "let i = %s\nprintln(i.to_float())" % lit_i, expect_float(ref)))
    fl = [0.0, -0.0, 0.5, -0.5, 0.999999, 1.5, -1.5, 2.5, 1e15 + 0.5, -1e15 - 0.5, 9.2233720368547748e18, -9.223372036854775807e18,
          4.5e18, 123456.789, 2.0 ** 52 + 0.5, 3.14159]
    for _ in range(20 if ctx.quick else 300):
        e = r.range(-3, 62)
        f = (r.below(1 << 53) / float(1 << 53) + 1.0) * (2.0 ** e)
        fl.append(f if r.chance(50) else -f)
    for f in fl:
        if abs(f) >= 2.0 ** 63:
            continue
        t = int(f)  # truncation toward zero
        cases.append(Case("int_from_float lit f=%016x" % bits(f), "println(int_from_float(%s))" % lit(f), ("out", "%d\n" % t)))
        cases.append(Case("int_from_float var f=%016x" % bits(f), "let f = %s\nprintln(f.to_int())" % lit(f), ("out", "%d\n" % t)))
    # literal spellings with long digit strings must be correctly rounded
    for _ in range(40 if ctx.quick else 600):
        nd = r.range(1, 30)
        ip = "".join(str(r.below(10)) for _ in range(r.range(1, 25))).lstrip("0") or "0"
        fp = "".join(str(r.below(10)) for _ in range(nd))
        s = ip + "." + fp
        cases.append(Case("literal %s" % s, "println(%s)" % s, expect_float(float(s))))
    return cases


def cmp_cases(ctx, F):
    """each case prints the six comparison results of a pair in one operand form"""
    vals = F[:22] + ["inf", "-inf", "nan"]
    cases = []
    for a in vals:
        for b in vals:
            # operand form x what consumes the result: an `if` (a conditional jump), a local it is
            # stored into, a call argument, an array element
            for f in ("vv", "vl", "lv", "ll", "vv:let", "vl:let", "lv:let", "vl:arg", "vv:elem", "vl:elem"):
                of, _, use = f.partition(":")
                la = of in ("ll", "lv")
                lb = of in ("ll", "vl")
                if (la and isinstance(a, str)) or (lb and isinstance(b, str)):
                    continue
                A, B = spell(a, la), spell(b, lb)
                ops = ("<", "<=", ">", ">=", "==", "!=")
                if use == "":
                    lines = ["print(if %s %s %s { \"1\" } else { \"0\" })" % (A, op, B) for op in ops]
                elif use == "let":
                    lines = ["let r%d = %s %s %s\nprint(if r%d { \"1\" } else { \"0\" })" % (i, A, op, B, i) for i, op in enumerate(ops)]
                elif use == "arg":
                    lines = ["print(verif_bit(%s %s %s))" % (A, op, B) for op in ops]
                else:
                    lines = ["let rs = [%s]" % ", ".join("%s %s %s" % (A, op, B) for op in ops), "for r in rs { print(verif_bit(r)) }"]
                body = "{\n" + "\n".join(lines) + "\nprintln(\"\")\n}"
                cases.append(Case("cmp form=%s a=%s b=%s" % (f, key_of(a), key_of(b)), body, ("any",), DECLS, meta=(f, key_of(a), key_of(b))))
    return cases


def run(ctx):
    F = fset(ctx)
    cases = gen_arith(ctx, F) + gen_intrinsics(ctx, F) + gen_conv(ctx)
    sig = lambda c: "C16 " + c.key
    nruns, observed, failures = run_cases(ctx, "c16", cases, sig, per_prog=250)

    # comparisons: collect the relation tables, then check laws and form agreement
    cc = cmp_cases(ctx, F)
    table = {}

    def expect_cmp(obs):
        return None
    from checks.common import make_jobs
    jobs, index = make_jobs("c16c", cc, 250)
    results = ctx.run(jobs)
    ncmp = 0
    for job in jobs:
        res = results[job["id"]]
        chunk, owner = index[job["id"]]
        if not res.get("compile", {}).get("ok"):
            ctx.need(False, "comparison program did not compile: %s" % str(res.get("compile"))[:300])
            continue
        for run_, i in zip(res["runs"], owner):
            c = chunk[i]
            ob = observe(run_)
            ncmp += 1
            table[c.meta] = ob[1].strip() if ob[0] == "out" else "FAULT:%s" % (ob,)
            if ob[0] != "out" or len(ob[1].strip()) != 6:
                reg_cmp(ctx, c, "comparison did not yield six results: %r" % (ob,))
    # laws on every pair
    bykey = {c.meta: c for c in cc}
    keys = sorted({k[1] for k in table})
    rel = {}
    for (f, a, b), t in table.items():
        if len(t) != 6 or t.startswith("FAULT"):
            continue
        lt, le, gt, ge, eq, ne = [ch == "1" for ch in t]
        c = bykey[(f, a, b)]
        if (lt + eq + gt) != 1:
            reg_cmp(ctx, c, "not exactly one of <,==,> : %s" % t)
        if ne == eq:
            reg_cmp(ctx, c, "!= is not the negation of ==: %s" % t)
        if le != (lt or eq) or ge != (gt or eq):
            reg_cmp(ctx, c, "<=/>= inconsistent with </==/>: %s" % t)
        if a == b and not eq:
            reg_cmp(ctx, c, "x == x is false: %s" % t)
        base = table.get(("vv", a, b))
        if base is not None and base != t:
            reg_cmp(ctx, c, "operand form %s gives %s but variables give %s" % (f, t, base))
        if f == "vv":
            rel[(a, b)] = (lt, eq, gt)
    # antisymmetry / transitivity on the variable form
    ks = [k for k in keys if (k, k) in rel]
    for a in ks:
        for b in ks:
            if (a, b) in rel and (b, a) in rel:
                if rel[(a, b)][0] != rel[(b, a)][2] or rel[(a, b)][1] != rel[(b, a)][1]:
                    reg_cmp(ctx, bykey[("vv", a, b)], "a<b disagrees with b>a: %s vs %s" % (rel[(a, b)], rel[(b, a)]))
    for a in ks:
        for b in ks:
            if not (rel.get((a, b), (0, 0, 0))[0] or rel.get((a, b), (0, 0, 0))[1]):
                continue
            for c_ in ks:
                ab, bc, ac = rel.get((a, b)), rel.get((b, c_)), rel.get((a, c_))
                if not (ab and bc and ac):
                    continue
                if (ab[0] or ab[1]) and (bc[0] or bc[1]) and not (ac[0] or ac[1]):
                    reg_cmp(ctx, bykey[("vv", a, c_)], "<= not transitive via %s" % b)
                if ab[1] and bc[1] and not ac[1]:
                    reg_cmp(ctx, bykey[("vv", a, c_)], "== not transitive via %s" % b)
    ctx.coverage(
        evaluations=nruns + ncmp,
        distinct_nontrivial=len(observed) + len(table),
        rule="case = (operation, operand form, operand bit patterns); distinct = distinct case keys observed; "
             "arithmetic/intrinsic/conversion cases compared bit-exactly with the IEEE/libm/integer reference, "
             "comparison tables (%d pairs x forms) checked against the order laws and for form agreement" % len(table),
        samples=[{"case": c.key, "program": c.body} for c in (cases[0], cases[len(cases) // 3], cc[5])],
        float_set_size=len(F),
        failures=failures[:20],
    )
    ctx.need(len(observed) >= 0.98 * len({c.key for c in cases}), "only %d of %d cases observed" % (len(observed), len(cases)))


def reg_cmp(ctx, c, why):
    from checks.common import single_program
    sig = "C16 " + c.key + " :: " + why.split(":")[0]
    job = {"id": "confirm", "files": {"main.abra": single_program(c)}, "runs": [{}]}
    expected_why = why

    def judge(res, sig=sig):
        # the law violation is a property of observed tables; re-observe this pair alone and
        # report when the same table comes back (deterministic VM): compare textual output
        runs = res.get("runs") or [{}]
        ob = observe(runs[0])
        if ob[0] != "out":
            return [(sig, "fault: %r" % (ob,))]
        t = ob[1].strip()
        if len(t) != 6:
            return [(sig, "bad table %r" % t)]
        lt, le, gt, ge, eq, ne = [ch == "1" for ch in t]
        bad = (lt + eq + gt) != 1 or ne == eq or le != (lt or eq) or ge != (gt or eq)
        if bad or "form" in expected_why or "transitive" in expected_why or "disagrees" in expected_why or "x == x" in expected_why:
            return [(sig, expected_why + " (table %s)" % t)]
        return []
    ctx.candidate(sig, "%s: %s" % (c.key, why), job, judge)


def replay(ctx, rep):
    res = ctx.ex.run_alone(rep["job"])
    print(__import__("json").dumps(res)[:2000])
