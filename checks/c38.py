"""C38 Arena allocation is memory-safe for values of any size.

Monitors on the real utils::Arena (harness-utils): after every allocation the returned reference
must be aligned for its type, must not overlap any live allocation, and every earlier value must
still read back its canary pattern. Types: u8..u128, byte arrays of 3, 24, 100, 4096, 9000 and
20000 bytes (larger than the current buffer and than twice the current buffer), [u64; 64],
over-aligned structs (16, 32, 64), a zero-sized type; arenas from new() and with_capacity
{0, 1, 16, 20, 1024}. The same sequences run natively, under AddressSanitizer (writes outside the
arena's buffers are heap-buffer-overflows) and under Miri (misaligned or out-of-bounds access)."""
from checks import utilsan

LEVEL = "fault_enumeration"
PROP = "C38"
MIRI_OPS = "u8,u16,u64,u128,b3,b24,b100,a16,a32,a64,zst"


def run(ctx):
    q = ctx.quick
    s = str(ctx.seed * 104729 + 38)
    plan = [
        ("native", ["arena", "exhaustive", "3" if q else "4"], "exhaustive"),
        ("native", ["arena", "random", s, "4000" if q else "80000", "40"], "random"),
        ("asan", ["arena", "exhaustive", "3" if q else "4"], "exhaustive"),
        ("asan", ["arena", "random", s, "3000" if q else "60000", "40"], "random"),
        ("miri", ["arena", "exhaustive", "2", "-", MIRI_OPS], "exhaustive (small types)"),
    ]
    if not q:
        plan.append(("miri", ["arena", "exhaustive", "3", "-", "u8,u64,b24,a32,zst,b100"], "exhaustive length 3 (six types)"))
    totals, per_kind = utilsan.run_plan(ctx, PROP, "arena", plan)
    ctx.coverage(
        evaluations=totals["sequences"],
        distinct_nontrivial=totals["sequences"],
        rule="evaluation = one allocation sequence on a fresh arena (each enumerated sequence is run for every initial capacity "
             "new(), 0, 1, 16, 20, 1024) with alignment, overlap and canary checks after every allocation; exhaustive runs enumerate every "
             "sequence up to the stated length over the 17-type alphabet (11 small types under Miri), random runs draw up to 40 allocations",
        samples=[{"sequence": "cap=-1 u8,u128,b100,a64,b9000,u16", "tools": ["native checks", "AddressSanitizer", "Miri -Zmiri-tree-borrows"]}],
        allocations_executed=totals["ops"],
        per_tool=per_kind,
        exhaustive=True,
        exhaustive_note="all sequences up to length %s (native, ASan) / 2 (Miri) x 6 initial capacities were enumerated" % ("3" if q else "4"),
    )
    ctx.need(all(k in per_kind for k in ("native", "asan", "miri")), "a tool produced no completed run: %s" % sorted(per_kind))


def replay(ctx, rep):
    j = rep["job"]
    rc, text = utilsan.invoke(j["kind"], j["args"])
    print(text[-3000:])
