"""C26 Array operations match a list model and fail cleanly.

Oracle: python list model; the program prints an observation (length + every element through
iteration) after each operation. `remove(i)` is modelled as the prelude defines it (swap with
the last element, pop). An out-of-range index or a pop on an empty array must end the run with a
documented runtime error after exactly the observations of the preceding operations - never a
host panic. Workload: every operation sequence up to length 3 (4 in thorough) over a 14-letter
alphabet from two start arrays, plus random longer sequences over ints, strings, nested arrays
(clone independence) and void elements."""
import itertools

from checks.common import Case, run_cases

LEVEL = "fault_enumeration"
SHOW = ("fn show(xs: array<int>) {\n  print(xs.len() .. \":\")\n  for x in xs { print(x .. \",\") }\n  println(\"\")\n}\n"
        "fn shows(xs: array<string>) {\n  print(xs.len() .. \":\")\n  for x in xs { print(x .. \",\") }\n  println(\"\")\n}\n"
        "fn shown(xs: array<array<int>>) {\n  print(xs.len() .. \":\")\n  for x in xs { print(x.len() .. \"[\")\n for y in x { print(y .. \" \") }\n print(\"]\") }\n  println(\"\")\n}\n")


class Oob(Exception):
    pass


def show(xs):
    return "%d:%s\n" % (len(xs), "".join("%s," % x for x in xs))


def idx(xs, i):
    if i < 0 or i >= len(xs):
        raise Oob()
    return i


# op = (name, args); each returns (abra statements, model action)
def apply(op, xs, out):
    name = op[0]
    if name == "push":
        xs.append(op[1])
    elif name == "pop":
        if not xs:
            raise Oob()
        out.append("p%s\n" % xs.pop())
    elif name == "get":
        out.append("g%s\n" % xs[idx(xs, op[1])])
    elif name == "set":
        xs[idx(xs, op[1])] = op[2]
    elif name == "swap":
        # prelude: temp = self[i]; self[i] = self[j]; self[j] = temp
        i = idx(xs, op[1])
        j = idx(xs, op[2])
        xs[i], xs[j] = xs[j], xs[i]
    elif name == "remove":
        # prelude: swap(index, len-1); pop
        i = idx(xs, op[1])
        j = idx(xs, len(xs) - 1)
        xs[i], xs[j] = xs[j], xs[i]
        xs.pop()
    elif name == "clear":
        del xs[:]
    elif name == "find":
        out.append("f%d\n" % (xs.index(op[1]) if op[1] in xs else -1))
    elif name == "contains":
        out.append("c%s\n" % ("true" if op[1] in xs else "false"))
    elif name == "empty":
        out.append("e%s\n" % ("true" if not xs else "false"))
    elif name == "clone":
        ys = list(xs)
        ys.append(9)
        out.append("k" + show(ys))
    elif name == "filled":
        out.append("z" + show([op[1]] * op[2]))
    else:
        raise ValueError(name)


def stmt(op):
    name = op[0]
    if name == "push":
        return "xs.push(%d)" % op[1]
    if name == "pop":
        return 'println("p" .. xs.pop())'
    if name == "get":
        return 'println("g" .. xs[%s])' % ivar(op[1])
    if name == "set":
        return "xs[%s] = %d" % (ivar(op[1]), op[2])
    if name == "swap":
        return "xs.swap(%s, %s)" % (ivar(op[1]), ivar(op[2]))
    if name == "remove":
        return "xs.remove(%s)" % ivar(op[1])
    if name == "clear":
        return "xs.clear()"
    if name == "find":
        return 'println("f" .. match xs.find(%d) { .some(i) -> i, .none -> 0 - 1 })' % op[1]
    if name == "contains":
        return 'println("c" .. xs.contains(%d))' % op[1]
    if name == "empty":
        return 'println("e" .. xs.is_empty())'
    if name == "clone":
        return 'let ys = xs.clone()\nys.push(9)\nprint("k")\nshow(ys)'
    if name == "filled":
        return 'let zs: array<int> = array.filled(%d, %d)\nprint("z")\nshow(zs)' % (op[1], op[2])
    raise ValueError(name)


def ivar(i):
    return "(0 - %d)" % -i if i < 0 else str(i)


ALPHABET = [("push", 0), ("push", 1), ("pop",), ("get", 0), ("get", 1), ("set", 0, 2), ("set", 1, 2), ("swap", 0, 1), ("remove", 0), ("remove", 1),
            ("clear",), ("find", 1), ("contains", 2), ("clone",)]
EXTRA = [("get", -1), ("get", 2), ("set", 2, 0), ("swap", 1, 2), ("swap", 0, 0), ("remove", 2), ("empty",), ("filled", 1, 2), ("filled", 0, 0), ("find", 2),
         ("push", 2), ("set", -1, 1)]


def make_case(start, seq):
    xs = list(start)
    out = []
    body = ["let xs: array<int> = [%s]" % ", ".join(str(x) for x in start), "show(xs)"]
    out.append(show(xs))
    err = False
    for op in seq:
        body.append(stmt(op))
        body.append("show(xs)")
        if err:
            continue
        try:
            apply(op, xs, out)
            out.append(show(xs))
        except Oob:
            err = True
    text = "".join(out)
    key = "start=%s seq=%s" % (start, " ".join("_".join(str(x) for x in op) for op in seq))
    if err:
        def exp(obs, text=text):
            if obs[0] == "fault":
                return "host fault instead of a runtime error: %s" % (obs[1],)
            if obs[0] != "err":
                return "expected a runtime error after output %r, observed %r" % (text[-80:], obs[:2])
            if obs[1] not in ("oob", "panic", "overflow", "divzero"):
                return "undocumented error kind %r" % (obs[1],)
            if obs[3] != text:
                return "output before the error: expected %r observed %r" % (text[-120:], obs[3][-120:])
            return None
        return Case(key, "\n".join(body), exp, SHOW)
    return Case(key, "\n".join(body), ("out", text), SHOW)


def other_cases():
    cs = []
    cs.append(Case("strings", 'let xs = ["a", "", "é"]\nxs.push("b")\nshows(xs)\nprintln(xs.pop() .. xs.pop())\nxs.swap(0, 1)\nshows(xs)\nprintln(xs.contains(""))\n'
                   'match xs.find("a") { .some(i) -> println(i), .none -> println("none") }\nlet ys = xs.clone()\nys.push("q")\nshows(xs)\nshows(ys)\nxs.clear()\nshows(xs)',
                   ("out", "4:a,,é,b,\nbé\n2:,a,\ntrue\n1\n2:,a,\n3:,a,q,\n0:\n"), SHOW))
    cs.append(Case("nested clone independence", 'let ns: array<array<int>> = [[1], [2, 3]]\nlet ms = ns.clone()\nms[0].push(5)\nms.push([7])\nns[1][0] = 9\nshown(ns)\nshown(ms)\n'
                   'let al = ns\nal.push([])\nshown(ns)',
                   ("out", "2:1[1 ]2[9 3 ]\n3:2[1 5 ]2[2 3 ]1[7 ]\n3:1[1 ]2[9 3 ]0[]\n"), SHOW))
    cs.append(Case("void elements", 'let vs: array<void> = [nil, nil]\nvs.push(nil)\nprintln(vs.len())\nlet u = vs.pop()\nprintln(vs.len())\nprintln(vs)\nfor v in vs { print(v) }\nprintln("")\nvs.clear()\nprintln(vs.is_empty())',
                   ("out", "3\n2\n[ nil, nil ]\nnilnil\ntrue\n"), SHOW))
    cs.append(Case("filled clones", 'let row = [0]\nlet g: array<array<int>> = array.filled(row, 3)\ng[0].push(1)\nrow.push(8)\nshown(g)', ("out", "3:2[0 1 ]1[0 ]1[0 ]\n"), SHOW))
    cs.append(Case("iteration sees pushes", 'let xs = [1]\nvar n = 0\nfor x in xs { n += 1\n if n < 4 { xs.push(x + 1) } }\nshow(xs)', ("out", "4:1,2,3,4,\n"), SHOW))
    cs.append(Case("negative index var", 'let xs = [1, 2]\nlet i = 0 - 1\nprintln(xs[i])', lambda obs: None if obs[0] == "err" and obs[1] == "oob" else "expected out-of-bounds error, got %r" % (obs[:2],), SHOW))
    cs.append(Case("huge index", 'let xs = [1, 2]\nprintln(xs[9223372036854775807])', lambda obs: None if obs[0] == "err" and obs[1] == "oob" else "expected out-of-bounds error, got %r" % (obs[:2],), SHOW))
    cs.append(Case("min index set", 'let xs = [1, 2]\nxs[-9223372036854775808] = 1', lambda obs: None if obs[0] == "err" and obs[1] == "oob" else "expected out-of-bounds error, got %r" % (obs[:2],), SHOW))
    return cs


def run(ctx):
    r = ctx.rng.fork("c26")
    cases = []
    maxlen = 3 if ctx.quick else 4
    for start in ([], [1, 2]):
        for n in range(0, maxlen + 1):
            for seq in itertools.product(ALPHABET, repeat=n):
                if ctx.quick and n == 3 and start == [] and r.chance(50):
                    continue
                cases.append(make_case(start, seq))
    full = ALPHABET + EXTRA
    for _ in range(600 if ctx.quick else 12000):
        start = [r.below(3) for _ in range(r.range(0, 4))]
        seq = [r.choice(full) for _ in range(r.range(4, 14))]
        cases.append(make_case(start, seq))
    cases += other_cases()
    nruns, observed, failures = run_cases(ctx, "c26", cases, lambda c: "C26 " + c.key, per_prog=150)
    ctx.coverage(
        evaluations=nruns,
        distinct_nontrivial=len(observed),
        rule="case = (start array, operation sequence); all sequences up to length %d over a 14-operation alphabet from [] and [1,2] "
             "(exhaustive in thorough, half of the length-3 sequences from [] sampled in quick), random sequences of length 4..14 over "
             "26 operations, and fixed cases for strings, nested arrays, void elements, boundary indices; distinct = distinct cases whose "
             "printed observations (or clean runtime error) were compared with the list model" % maxlen,
        samples=[{"case": c.key, "program": c.body} for c in (cases[20], cases[-9])],
        exhaustive=not ctx.quick,
        failures=failures[:20],
    )
    ctx.need(len(observed) >= 0.98 * len({c.key for c in cases}), "only %d of %d cases observed" % (len(observed), len(cases)))


def replay(ctx, rep):
    res = ctx.ex.run_alone(rep["job"])
    print(__import__("json").dumps(res)[:3000])
