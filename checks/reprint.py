"""Token-preserving re-printing of Abra source (C29): comments between tokens, line comments where
a newline already is, extra blank lines, and (for sources printed by progen with separator
markers) random choices for the optional `,` / `;` / newline separators."""
import re

M_L, M_S, M_N = "\x01", "\x02", "\x03"

TOKEN_RE = re.compile(r'''
    (?P<tq>"""(?:[^\\]|\\.)*?""")            # triple-quoted string
  | (?P<dq>"(?:[^"\\\n]|\\.)*")              # double-quoted string
  | (?P<sq>'(?:[^'\\\n]|\\.)*')              # single-quoted string
  | (?P<lc>//[^\n]*)                         # line comment
  | (?P<bc>/\*.*?\*/)                        # block comment
  | (?P<nl>\n)
  | (?P<ws>[ \t]+)
  | (?P<cont>\\\n)                           # line continuation
  | (?P<num>\d[\d_]*(?:\.\d[\d_]*)?(?:[eE][+-]?\d+)?)
  | (?P<id>\#?[A-Za-z_][A-Za-z0-9_]*)
  | (?P<op>->|\.\.|==|!=|<=|>=|\+=|-=|\*=|/=|%=|::|[\x01\x02\x03]|.)
''', re.S | re.X)

COMMENT_ALPHABET = ["a", "b", " ", " ", "x1", "*", "/", "**", "* /", "/ *", "/*", "\"", "'", "\n", "\n\n", "\t", "é", "€", "日本", "\\", "\\n",
                    "{", "}", "(", ";", ",", "let x = 1", "// inner", "#", "-->", "0", "🙂", "*\n*", "=", "*x/", "/x*"]
LINE_ALPHABET = ["a", " ", "x = 2", "*/", "/*", "//", "\"", "'", "é", "€", "🙂", "{", "}", ";", ",", "\\", "\\ ", "\t", "let", "#"]


def tokens(src):
    out = []
    pos = 0
    for m in TOKEN_RE.finditer(src):
        assert m.start() == pos, (pos, src[pos:pos + 20])
        pos = m.end()
        out.append((m.lastgroup, m.group(0)))
    assert pos == len(src)
    return out


def block_comment(r, maxlen=6):
    n = r.range(0, maxlen)
    text = "".join(r.choice(COMMENT_ALPHABET) for _ in range(n))
    # the statement excludes comment text containing the closing delimiter
    while "*/" in text:
        text = text.replace("*/", "* /")
    if text.endswith("*"):
        text += " "
    return "/*" + text + "*/"


def line_comment(r, trailing_backslash_ok=True):
    n = r.range(0, 5)
    text = "".join(r.choice(LINE_ALPHABET) for _ in range(n))
    return "//" + text


def reprint(src, r, comments=True, blank_lines=True, p_block=12, p_line=25, p_blank=20):
    """src may contain separator markers. -> new source, counts"""
    toks = tokens(src)
    out = []
    counts = {"block": 0, "line": 0, "blank": 0, "lsep": 0, "ssep": 0, "nsep": 0}
    prev_sig = None   # previous significant token text
    for i, (kind, text) in enumerate(toks):
        if text == M_L:
            c = r.choice([", ", ",", ",\n", "\n", " ,\n  ", ", "])
            counts["lsep"] += c != ", "
            out.append(c)
            continue
        if text == M_S:
            c = r.choice(["; ", ";", ";\n", "\n", " ;\n", "; "])
            counts["ssep"] += c != "; "
            out.append(c)
            continue
        if text == M_N:
            c = r.choice(["", "", ";", " ;"])
            counts["nsep"] += c != ""
            out.append(c)
            continue
        if kind == "nl":
            if comments and r.chance(p_line):
                out.append(" " + line_comment(r))
                counts["line"] += 1
            out.append("\n")
            if blank_lines and r.chance(p_blank):
                k = r.range(1, 3)
                for _ in range(k):
                    if comments and r.chance(30):
                        out.append(line_comment(r))
                        counts["line"] += 1
                    out.append("\n")
                counts["blank"] += k
            continue
        if kind in ("ws", "cont", "lc", "bc"):
            out.append(text)
            continue
        # a significant token: maybe put a block comment in front of it (between two tokens)
        if comments and prev_sig is not None and r.chance(p_block):
            out.append(" " + block_comment(r) + " ")
            counts["block"] += 1
        out.append(text)
        prev_sig = text
    return "".join(out), counts


def plain(src):
    """markers -> default separators"""
    return src.replace(M_L, ", ").replace(M_S, "; ").replace(M_N, "")
