"""C11 The runtime reports completion, errors and host calls truthfully.

Monitors at the embedder boundary (the executor records them after every `run_n_steps` call):
  * budget: steps_consumed <= k, and steps_consumed equals the number of instructions the VM
    really attempted during the call (hook counter) - nothing is executed unreported;
  * completion: the call reports Done exactly when the main program's done flag is set (not
    earlier, not one call later, also while other tasks are runnable, blocked forever or waiting
    for their own host calls); an erroring main program is reported as MainThreadError, never Done;
  * PendingHostFunc is reported only while some task really has a pending host call.
Oracle for the contents: the reference interpreter (checks/progen.py). Generated programs
declare their own host functions; the executor pops the arguments through the public API, logs
them into the output and pushes a scripted reply, and the reference interpreter does the same, so
"exactly the call's arguments" and "resumes with the value the host returns" are decided by
output equality. The reported final value is compared through Runtime::top().
Part B puts never-ending, blocked, allocating and host-calling background tasks next to the same
programs: the main program's outcome must not change and Done must be reported when main stops.
Part C: several tasks call their own host functions concurrently; each function's call log and
each task's received replies must match the script."""
import vlib
from checks import progen, proglib

LEVEL = "exploration"
PROP = "C11"

BG = {
    "spin": ["task {", "  var bg_c = 0", "  while true { bg_c = bg_c + 1 }", "}"],
    "blocked": ["let bg_never: channel<int> = channel()", "task {", "  let bg_v = bg_never.read()", "  eprintln(bg_v)", "}"],
    "eprinter": ["task {", "  var bg_i = 0", "  while bg_i < 40 {", "    eprintln(\"T\" .. bg_i)", "    bg_i = bg_i + 1", "  }", "}"],
    "alloc": ["task {", "  let bg_a = [\"s\"]", "  while true {", "    bg_a.push(\"x\" .. bg_a.len())", "    if bg_a.len() > 30 { bg_a.pop(); bg_a.pop() }", "  }", "}"],
    "finite": ["task {", "  var bg_k = 0", "  for bg_j in 25 { bg_k = bg_k + bg_j }", "}"],
    "pingpong": ["let bg_p: channel<int> = channel()", "let bg_q: channel<int> = channel()",
                 "task {", "  while true { bg_q.write(bg_p.read() + 1) }", "}",
                 "task {", "  var bg_n = 0", "  while true {", "    bg_p.write(bg_n)", "    bg_n = bg_q.read()", "  }", "}"],
}


def specs_a(seed, quick):
    r = vlib.Rng(seed)
    ks = [1, 2, 3, 7, 64, 4294967295] if quick else [1, 2, 3, 4, 5, 7, 8, 13, 16, 31, 64, 100, 1000, 4294967295]
    out = [{"budget": {"k": k}} for k in ks]
    out.append({"budget": {"seq": [1, 2, 3]}})
    out.append({"budget": {"seq": [3, 1, 1, 2]}, "delay": 1})
    for i in range(1 if quick else 6):
        out.append({"budget": {"rand": {"seed": r.next() >> 1, "max": r.choice([2, 3, 9, 33, 200])}}, "delay": r.choice([0, 0, 2, 5])})
    for s in out:
        s["max_steps"] = 400000
    return out


def specs_b(seed, quick):
    r = vlib.Rng(seed)
    ks = [1, 3, 100] if quick else [1, 2, 3, 7, 13, 64, 100, 1000]
    out = [{"budget": {"k": k}} for k in ks]
    for i in range(1 if quick else 5):
        out.append({"budget": {"rand": {"seed": r.next() >> 1, "max": r.choice([2, 3, 9, 33, 200])}}, "delay": r.choice([0, 0, 1, 3])})
    for s in out:
        s["max_steps"] = 3000000
    return out


def judge_runs(prog, ref, res, specs):
    """-> list of (class, description)"""
    cr = vlib.crash_of(res)
    if cr:
        return [("abort", cr[1])]
    comp = res.get("compile", {})
    if not comp.get("ok"):
        return []
    out = []
    for spec, run in zip(specs, res.get("runs", [])):
        sched = {k: spec[k] for k in ("budget", "delay") if k in spec}
        for iv in run.get("inv") or []:
            out.append(("inv:" + iv.split(":")[0], "%s under %s" % (iv, sched)))
        if run.get("status") == "cap" or ref is None:
            continue
        v = proglib.compare(ref, prog["final_ty"], run)
        if v:
            out.append(("report:" + v[0], "%s under %s" % (v[1], sched)))
    seen, uniq = set(), []
    for c, w in out:
        if c not in seen:
            seen.add(c)
            uniq.append((c, w))
    return uniq


def host_task_program(r):
    """Part C. -> (src, hosts table, expected per-name logs, expected main output)"""
    nt = r.range(2, 3)
    hosts, lines, expect_logs = [], [], {}
    decl = []
    results = []
    for t in range(nt):
        name = "hq%d" % t
        ptypes = [r.choice(["int", "string", "bool"]) for _ in range(r.range(1, 3))]
        ret = r.choice(["int", "string", "bool"])
        m = r.range(1, 4)
        if ret == "int":
            reps = [r.range(-50, 50) * (10 ** r.choice([0, 3, 15])) for _ in range(m)]
        elif ret == "string":
            reps = ["r%d_%dé" % (t, j) for j in range(m)]
        else:
            reps = [r.chance(50) for _ in range(m)]
        hosts.append({"name": name, "args": ptypes, "ret": ret, "replies": reps, "log": True})
        decl.append("#host\nfn %s(%s) -> %s" % (name, ", ".join("p%d: %s" % (i, p) for i, p in enumerate(ptypes)), ret))
        lines.append("let out%d: channel<%s> = channel()" % (t, ret))
        body = ["task {"]
        logs = []
        for j in range(m):
            args_src, args_log = [], []
            for p in ptypes:
                if p == "int":
                    v = r.choice([0, -1, 7, 1 << 40, -(1 << 63), (1 << 63) - 1, t * 100 + j])
                    args_src.append("(%d)" % v if v < 0 else "%d" % v)
                    if v == -(1 << 63):
                        args_src[-1] = "(-9223372036854775807 - 1)"
                    args_log.append(str(v))
                elif p == "string":
                    v = r.choice(["", "a b", "q€", "t%d_%d" % (t, j), "semi;colon", "quote\"d"])
                    args_src.append('("" .. %s)' % progen.strlit(v) if r.chance(50) else progen.strlit(v))
                    args_log.append(progen.rust_debug(v))
                else:
                    v = r.chance(50)
                    args_src.append("true" if v else "false")
                    args_log.append("true" if v else "false")
            if r.chance(40):
                body.append("  var sp%d_%d = 0" % (t, j))
                body.append("  while sp%d_%d < %d { sp%d_%d += 1 }" % (t, j, r.choice([1, 5, 30]), t, j))
            body.append("  out%d.write(%s(%s))" % (t, name, ", ".join(args_src)))
            logs.append("<<%s(%s)>>" % (name, ";".join(args_log)))
        body.append("}")
        lines += body
        expect_logs[name] = logs
        results.append((t, ret, reps))
    main_expect = []
    for (t, ret, reps) in results:
        for rep in reps:
            lines.append('println("%d=" .. out%d.read())' % (t, t))
            main_expect.append("%d=%s" % (t, ("true" if rep else "false") if isinstance(rep, bool) else rep))
    src = "\n".join(decl) + "\n" + "\n".join(lines) + "\n"
    return src, hosts, expect_logs, main_expect


def judge_host_tasks(case, res, specs):
    src, hosts, expect_logs, main_expect = case
    cr = vlib.crash_of(res)
    if cr:
        return [("abort", cr[1])]
    if not res.get("compile", {}).get("ok"):
        c = res.get("compile", {})
        return [("nocompile", "host-task program did not compile: %s" % (c.get("panic") or c.get("errors", "")[:300]))]
    out = []
    for spec, run in zip(specs, res.get("runs", [])):
        sched = {k: spec[k] for k in ("budget", "delay") if k in spec}
        for iv in run.get("inv") or []:
            out.append(("inv:" + iv.split(":")[0], "%s under %s" % (iv, sched)))
        st = run.get("status")
        if st == "cap":
            continue
        if st != "done":
            out.append(("status", "run ended with status %s (%s %s) under %s" % (st, run.get("err"), run.get("panic"), sched)))
            continue
        lines = (run.get("output") or "").split("\n")
        logs = {}
        mains = []
        for ln in lines:
            if ln.startswith("<<"):
                logs.setdefault(ln[2:ln.index("(")], []).append(ln)
            elif ln:
                mains.append(ln)
        # tasks other than main may still be mid-way when main finishes: their logs are prefixes
        for name, exp in expect_logs.items():
            got = logs.get(name, [])
            if got != exp:
                out.append(("host-args", "host function %s saw calls %r, the program makes %r under %s" % (name, got, exp, sched)))
        if mains != main_expect:
            out.append(("host-reply", "tasks received %r from the host, the host returned %r under %s" % (mains, main_expect, sched)))
    seen, uniq = set(), []
    for c, w in out:
        if c not in seen:
            seen.add(c)
            uniq.append((c, w))
    return uniq


def run(ctx):
    na = 900 if ctx.quick else 20000
    nb = 350 if ctx.quick else 6000
    ncases = 120 if ctx.quick else 2000
    jobs, meta = [], {}
    # part A
    items, _ = proglib.gen_batch(ctx.seed * 53 + 1111, na, {"size": 45, "hosts": True})
    for (idx, prog, src, ref) in items:
        sp = specs_a(idx, ctx.quick)
        jid = "a%06d" % idx
        jobs.append({"id": jid, "files": {"main.abra": src}, "hosts": proglib.host_specs(prog), "runs": sp})
        meta[jid] = ("A", prog, ref, src, sp)
    # part B: same kind of programs with background tasks
    items_b, _ = proglib.gen_batch(ctx.seed * 53 + 2222, nb, {"size": 35, "hosts": True}, start=5000000)
    r = ctx.rng.fork("bg")
    bg_hist = {}
    for (idx, prog, src0, ref) in items_b:
        kinds = r.sample(sorted(BG), r.range(1, 3))
        pre = []
        for k in kinds:
            pre += BG[k]
            bg_hist[k] = bg_hist.get(k, 0) + 1
        src, _lm = progen.emit(prog, before_main=pre)
        sp = specs_b(idx, ctx.quick)
        jid = "b%07d" % idx
        jobs.append({"id": jid, "files": {"main.abra": src}, "hosts": proglib.host_specs(prog), "runs": sp})
        meta[jid] = ("B", prog, ref, src, sp)
    # part C
    rc = ctx.rng.fork("hosttasks")
    for i in range(ncases):
        case = host_task_program(rc.fork(i))
        sp = specs_b(i, ctx.quick)
        jid = "c%05d" % i
        jobs.append({"id": jid, "files": {"main.abra": case[0]}, "hosts": case[1], "runs": sp})
        meta[jid] = ("C", case, None, case[0], sp)
    results = ctx.run(jobs)
    evals = 0
    distinct = set()
    calls = 0
    host_calls = 0
    parts = {"A": 0, "B": 0, "C": 0}
    endings = {"done": 0, "error": 0}
    max_threads = 0
    rejected = 0
    for job in jobs:
        jid = job["id"]
        part, prog, ref, src, sp = meta[jid]
        res = results[jid]
        if part == "C":
            found = judge_host_tasks(prog, res, sp)
        else:
            found = judge_runs(prog, ref, res, sp)
        for cls, what in found:
            sig = "%s %s %s %s" % (PROP, part, vlib.hhex(src if part == "C" else proglib.normalize(src))[:10], cls)

            def j(r2, part=part, prog=prog, ref=ref, sp=sp, sig=sig, cls=cls):
                f = judge_host_tasks(prog, r2, sp) if part == "C" else judge_runs(prog, ref, r2, sp)
                return [(sig, w) for c, w in f if c == cls]
            ctx.candidate(sig, what + "\n--- program ---\n" + src, job, j)
        if not res.get("compile", {}).get("ok"):
            rejected += 1
            continue
        runs = res.get("runs", [])
        fin = [x for x in runs if x.get("status") in ("done", "error")]
        evals += len(runs)
        if fin:
            distinct.add(jid)
            parts[part] += 1
            endings[fin[0]["status"]] += 1
        for x in runs:
            calls += x.get("calls", 0)
            host_calls += x.get("host_calls", 0)
            max_threads = max(max_threads, x.get("max_threads", 0))
    ctx.coverage(
        evaluations=evals,
        distinct_nontrivial=len(distinct),
        rule="evaluation = one execution of a program under one (budget plan, host-reply delay) with the status invariants checked after "
             "every run_n_steps call; distinct = programs with at least one run that ended in Done or a main-program error and was "
             "compared with the reference (parts A/B) or the host script (part C)",
        samples=[{"part": "B", "program": next((meta[j["id"]][3] for j in jobs if j["id"].startswith("b")), ""), "plans": specs_b(1, ctx.quick)[:3]},
                 {"part": "C", "program": next((meta[j["id"]][3] for j in jobs if j["id"].startswith("c")), "")}],
        run_n_steps_calls_checked=calls,
        host_calls_serviced=host_calls,
        programs_by_part=parts,
        endings=endings,
        background_task_kinds=bg_hist,
        max_live_tasks_seen=max_threads,
        rejected_by_compiler=rejected,
    )
    ctx.need(parts["A"] >= 200 and parts["B"] >= 100 and parts["C"] >= 50, "too few programs observed per part: %s" % parts)
    ctx.need(endings["error"] >= 20, "fewer than 20 programs ending in a main-program error")
    ctx.need(host_calls >= 1000, "fewer than 1000 host calls serviced")


def replay(ctx, rep):
    res = ctx.ex.run_alone(rep["job"])
    print(__import__("json").dumps(res)[:3000])
