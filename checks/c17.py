"""C17 String concatenation and comparison give byte-exact results.

Oracle: python bytes (UTF-8) concatenation and lexicographic comparison. Every program (a group
of operand pairs, static and heap-built operands) is executed at every step budget 1..40 (+ a
few large ones) and with a collection cycle started at every instruction of the run (scripted GC
plan, quarantine + reachability monitor on), so a collector that frees an in-flight operand or
a resume bug at any byte position is observed."""
from checks.abra import strlit
import vlib

LEVEL = "exploration"
OPS = ("==", "!=", "<", "<=", ">", ">=")


def sset(ctx):
    base = "abcdefgh"
    s = ["", "a", "b", "ab", "abc", "abd", "aaaaaaaa", base, base + "i", "abcdefg", "B", "a b", "é", "e", "€", "😀", "aé", "a€",
         "a😀", "aéb", "a\x00b", "a\x00", "\x00", "\xe9", "z", "\x7f", "\n", "ab\n"]
    for i in range(8):
        s.append(base[:i] + "X" + base[i + 1:])
        s.append(base[:i] + "~" + base[i + 1:])
    r = ctx.rng.fork("strings")
    alpha = "ab\x00é€😀 z"
    for _ in range(6 if ctx.quick else 40):
        s.append("".join(r.choice(alpha) for _ in range(r.range(0, 12))))
    long1 = "".join("abcdefghij"[i % 10] for i in range(300))
    s += [long1, long1[:-1] + "k", long1[:299], long1 + "€"]
    seen, out = set(), []
    for x in s:
        if x not in seen:
            seen.add(x)
            out.append(x)
    return out


def b(x):
    return x.encode("utf-8")


def expected_line(a, bb):
    A, B = b(a), b(bb)
    flags = [A == B, A != B, A < B, A <= B, A > B, A >= B]
    return a + bb + "|" + "".join("1" if f else "0" for f in flags) + "\n"


DECLS = "fn verif_cat(x: string, y: string) -> string = x .. y\n"


def operand(s, heap, k):
    if not heap:
        return strlit(s)
    k = min(k, len(s))
    return "verif_cat(%s, %s)" % (strlit(s[:k]), strlit(s[k:]))


def program(pairs):
    lines = [DECLS]
    exp = []
    for (a, bb, ha, hb, k) in pairs:
        A, B = operand(a, ha, k), operand(bb, hb, k + 1)
        lines.append("print(%s .. %s)" % (A, B))
        lines.append('print("|")')
        for op in OPS:
            lines.append('print(if %s %s %s { "1" } else { "0" })' % (A, op, B))
        lines.append('println("")')
        exp.append(expected_line(a, bb))
    return "\n".join(lines) + "\n", "".join(exp)


def run(ctx):
    S = sset(ctx)
    r = ctx.rng.fork("pairs")
    pairs = []
    longs = [x for x in S if len(x) >= 299]
    shorts = [x for x in S if len(x) < 299]
    for a in shorts:
        for bb in shorts:
            if ctx.quick and not (r.chance(30) or a == bb or a.startswith(bb) or bb.startswith(a)):
                continue
            pairs.append((a, bb, r.chance(50), r.chance(50), r.below(9)))
    for a in longs:
        for bb in longs + ["", "abc"]:
            pairs.append((a, bb, True, r.chance(50), 150))
            pairs.append((bb, a, r.chance(50), False, 7))
    jobs, meta = [], {}
    per = 6
    ks = list(range(1, 41)) + [64, 100, 1000, 4294967295]
    for n in range(0, len(pairs), per):
        chunk = pairs[n:n + per]
        src, exp = program(chunk)
        for kind in ("b", "g"):
            jid = "c17-%05d%s" % (n // per, kind)
            if kind == "b":
                gen = {"kind": "budgets", "ks": ks, "nrand": 4, "seed": ctx.seed * 1000 + n, "base": {}, "ref": {"budget": {"k": 4294967295}}}
            else:
                gen = {"kind": "gc_starts", "base": {"quarantine": True, "reach": True, "budget": {"k": 3}},
                       "ref": {"gc": {"plan": "off"}}, "max_tick": 100000, "points": 250 if ctx.quick else 1500,
                       "marks": [1, "max"], "sweeps": [1, "max"]}
            jobs.append({"id": jid, "files": {"main.abra": src}, "run_gen": gen})
            meta[jid] = (chunk, exp, src, gen)
    results = ctx.run(jobs)
    evals = 0
    scheds = 0
    agg = {"started": 0, "completed": 0, "swept": 0, "live_checks": 0, "reach_checks": 0}
    distinct = set()
    for job in jobs:
        res = results[job["id"]]
        chunk, exp, src, gen = meta[job["id"]]
        for sig, what in judge(res, chunk, exp):
            ctx.candidate(sig, what, job, lambda rr, chunk=chunk, exp=exp: judge(rr, chunk, exp))
        g = res.get("gen")
        if g:
            evals += g["variants"] + 1
            scheds += g["distinct_schedules"]
            for k in agg:
                agg[k] += g["agg"].get(k, 0)
            for p in chunk:
                distinct.add((job["id"][-1],) + p)
    ctx.coverage(
        evaluations=evals,
        distinct_nontrivial=len(distinct),
        rule="case = (operand pair, static/heap construction, split point) x schedule family (step budgets 1..40+ / "
             "one GC cycle started at each sampled instruction x mark,sweep increment sizes); distinct counts "
             "(family, pair) combinations whose every run reproduced the byte-exact reference output",
        samples=[{"program": meta[jobs[0]["id"]][2], "expected_output": meta[jobs[0]["id"]][1], "family": meta[jobs[0]["id"]][3]}],
        distinct_schedules=scheds,
        gc=agg,
        pairs=len(pairs),
    )
    ctx.need(agg["completed"] > 0 and agg["swept"] > 0, "no collection cycle completed / nothing swept during the GC family")


def judge(res, chunk, exp):
    out = []
    name = "C17 pairs=" + vlib.hhex(repr(chunk))[:10]
    cr = vlib.crash_of(res)
    if cr:
        return [(name + " crash", cr[1])]
    if not res.get("compile", {}).get("ok"):
        return [(name + " compile", "program rejected: %s" % str(res.get("compile"))[:300])]
    g = res["gen"]
    ref = g["ref"]
    if ref.get("status") != "done" or ref.get("output") != exp:
        # name the first pair whose line differs
        got = (ref.get("output") or "").split("\n")
        want = exp.split("\n")
        idx = next((i for i in range(len(want)) if i >= len(got) or got[i] != want[i]), 0)
        p = chunk[min(idx, len(chunk) - 1)]
        out.append(("C17 a=%r b=%r heap=%s,%s result" % (p[0][:20], p[1][:20], p[2], p[3]),
                    "reference run: status=%s expected line %r got %r panic=%s" % (ref.get("status"), want[idx] if idx < len(want) else None,
                                                                            got[idx] if idx < len(got) else None, ref.get("panic"))))
    for v in g["viols"]:
        out.append((name + " gc-monitor " + v["outcome"]["viol"][0]["kind"], "monitor violation %s under %s" % (v["outcome"]["viol"], v["variant"])))
    for d in g["diffs"]:
        o = d["outcome"]
        out.append((name + " schedule-dependence", "variant %s gave status=%s output=%r panic=%s (reference output %r)" % (
            d["variant"], o.get("status"), (o.get("output") or "")[:120], o.get("panic"), exp[:120])))
    return out[:4]


def replay(ctx, rep):
    res = ctx.ex.run_alone(rep["job"])
    print(__import__("json").dumps(res)[:3000])
