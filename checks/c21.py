"""C21 Names resolve to the innermost visible declaration; imports are exact.

Part A (scopes): programs from checks/scopegen.py (names from a four-name pool re-bound by
let/var, destructuring, for variables, match arms, lambda/function parameters, in nested blocks);
every binding holds a unique value, so the printed output shows which declaration each executed
use resolved to and must equal the model's innermost visible binding. A second family plants one
use of a name that is NOT visible at that point (e.g. after its block, loop or match arm ended):
the program must be rejected with an unresolved-identifier diagnostic at exactly that use.
Part B (imports): three library files (top level, sub-directory, sub-sub-directory) declare
random subsets of a pool of function names and an enum; main declares its own subset and imports
each library in one form (`use f`, `use f.x`, `use f.(x, y)`, `use f except x`,
`use f except (x, y)`, `use f as p`, nothing). The namespace model gives the set of
declarations visible under each name. Two visible declarations with one name => the program must
be rejected with a clash diagnostic naming a clashing name (and no other); otherwise every
visible name, called, must print its declaring file's tag, qualified access through a prefix must
reach that library's function, and a program that mentions a name the model says is invisible
must be rejected as unresolved."""
import vlib
from checks import scopegen

LEVEL = "exploration"
PROP = "C21"
POOL = ["fa", "fb", "fc", "fd"]
LIBS = [("la", "la.abra", "la"), ("lb", "dir/lb.abra", "dir/lb"), ("lc", "dir/sub/lc.abra", "dir/sub/lc")]


def gen_import_case(r):
    files = {}
    decl = {}            # lib -> list of declared names
    for lib, path, usepath in LIBS:
        names = [n for n in POOL if r.chance(40)]
        has_shade = r.chance(25)
        src = ["// %s" % r.choice(["lib", "é€ lib", "日本"])]
        for n in names:
            src.append('fn %s() -> string = "%s.%s"' % (n, lib, n))
        if has_shade:
            src.append("type Shade =\n  | Dark\n  | Light")
            src.append('fn %s_shade(s: Shade) -> string {\n  match s {\n    Shade.Dark -> "%s.dark"\n    Shade.Light -> "%s.light"\n  }\n}' % (lib, lib, lib))
        files[path] = "\n".join(src) + "\n"
        decl[lib] = names + (["Shade", "%s_shade" % lib] if has_shade else [])
    own = [n for n in POOL if r.chance(15)]
    own_shade = r.chance(20)
    visible = {}         # name -> list of sources
    for n in own:
        visible.setdefault(n, []).append("main")
    if own_shade:
        visible.setdefault("Shade", []).append("main")
    imports = []
    prefixes = []        # (prefix, lib)
    forms = {}
    for lib, path, usepath in LIBS:
        form = r.choice(["all", "single", "plural", "except", "except-plural", "as", "none", "all", "except"])
        forms[lib] = form
        names = decl[lib]
        universe = POOL + ["Shade", "%s_shade" % lib]
        if form == "none":
            continue
        if form == "all":
            imports.append("use %s" % usepath)
            vis = list(names)
        elif form == "single":
            x = r.choice(universe)
            imports.append("use %s.%s" % (usepath, x))
            vis = [x] if x in names else []
        elif form == "plural":
            xs = r.sample(universe, r.range(2, 3))
            imports.append("use %s.(%s)" % (usepath, ", ".join(xs)))
            vis = [x for x in xs if x in names]
        elif form == "except":
            x = r.choice(universe)
            imports.append("use %s except %s" % (usepath, x))
            vis = [n for n in names if n != x]
        elif form == "except-plural":
            xs = r.sample(universe, r.range(2, 3))
            imports.append("use %s except (%s)" % (usepath, ", ".join(xs)))
            vis = [n for n in names if n not in xs]
        else:
            # the prefix is a name of the importing file like any other: it may collide with a
            # function of the file, with an imported name or with another prefix
            pfx = "p" + lib if r.chance(60) else r.choice(POOL + ["pshared"])
            imports.append("use %s as %s" % (usepath, pfx))
            prefixes.append((pfx, lib))
            visible.setdefault(pfx, []).append("as:" + lib)
            vis = []
        for n in vis:
            visible.setdefault(n, []).append(lib)
    clashes = sorted(n for n, srcs in visible.items() if len(srcs) > 1)
    head = list(imports)
    for n in own:
        head.append('fn %s() -> string = "main.%s"' % (n, n))
    if own_shade:
        head.append("type Shade =\n  | Light\n  | Dark")
        head.append('fn main_shade(s: Shade) -> string {\n  match s {\n    Shade.Light -> "main.light"\n    Shade.Dark -> "main.dark"\n  }\n}')
    body, expect = [], []
    for n in POOL:
        if n in visible and not visible[n][0].startswith("as:"):
            body.append("println(%s())" % n)
            expect.append("%s.%s" % (visible[n][0], n))
    if "Shade" in visible and not clashes:
        src = visible["Shade"][0]
        fn = "main_shade" if src == "main" else "%s_shade" % src
        if src == "main" or fn in visible:
            body.append("println(%s(Shade.Light))" % fn)
            expect.append("%s.light" % src)
    for pfx, lib in prefixes:
        for n in decl[lib]:
            if n in POOL:
                body.append("println(%s.%s())" % (pfx, n))
                expect.append("%s.%s" % (lib, n))
    body.append('println("end")')
    expect.append("end")
    main = "\n".join(head + body) + "\n"
    # a name that exists in some library (or nowhere) but is not visible in main
    hidden = [n for n in POOL if n not in visible]
    neg = None
    if hidden and not clashes:
        h = r.choice(hidden)
        neg = ("\n".join(head + ["println(%s())" % h] + body) + "\n", h)
    return {"files": files, "main": main, "clashes": clashes, "expect": "\n".join(expect) + "\n", "neg": neg, "forms": forms,
            "visible": {k: v for k, v in visible.items()}}


def judge_import(case, res, res_neg):
    import re
    cr = vlib.crash_of(res)
    if cr:
        return [("abort", cr[1])]
    comp = res.get("compile", {})
    if comp.get("panic"):
        return [(vlib.panic_sig(comp["panic"]), "compiler panic %s" % comp["panic"])]
    out = []
    if case["clashes"]:
        if comp.get("ok"):
            out.append(("clash-accepted", "names %s are visible from two declarations (%s) but the program was accepted; it printed %r" % (
                case["clashes"], {n: case["visible"][n] for n in case["clashes"]}, (res["runs"][0].get("output") or "")[:200])))
        else:
            named = set(re.findall(r"`(\w+)` was declared more than once", comp.get("errors") or ""))
            if not named & set(case["clashes"]):
                out.append(("clash-not-reported", "expected a clash diagnostic for one of %s, got: %s" % (case["clashes"], (comp.get("errors") or "")[:300])))
            extra = named - set(case["clashes"])
            if extra:
                out.append(("false-clash", "clash reported for %s, which the model sees declared once (visible: %s)" % (sorted(extra), case["visible"])))
    else:
        if not comp.get("ok"):
            out.append(("rejected", "no clash and every used name is visible, but the program was rejected: %s" % (comp.get("errors") or "")[:400]))
        else:
            run = res["runs"][0]
            if run.get("status") != "done":
                out.append(("run-status", "run ended with %s %s %s" % (run.get("status"), run.get("err"), run.get("panic"))))
            elif run.get("output") != case["expect"]:
                out.append(("wrong-declaration", "printed %r, the namespace model gives %r (visible: %s)" % (run.get("output"), case["expect"], case["visible"])))
    if case["neg"] is not None and res_neg is not None:
        c2 = res_neg.get("compile", {})
        if c2.get("panic"):
            out.append((vlib.panic_sig(c2["panic"]), "compiler panic %s" % c2["panic"]))
        elif c2.get("ok"):
            out.append(("invisible-name-accepted", "%s is not imported and not declared in main, but a program calling it was accepted and printed %r" % (
                case["neg"][1], (res_neg["runs"][0].get("output") or "")[:120])))
        elif "Could not resolve identifier" not in (c2.get("errors") or ""):
            out.append(("invisible-name-other-error", "expected an unresolved identifier for %s, got %s" % (case["neg"][1], (c2.get("errors") or "")[:300])))
    return out


def judge_scope(p, res):
    cr = vlib.crash_of(res)
    if cr:
        return [("abort", cr[1])]
    comp = res.get("compile", {})
    if comp.get("panic"):
        return [(vlib.panic_sig(comp["panic"]), "compiler panic %s" % comp["panic"])]
    if p.get("planted"):
        lo, hi, name = p["planted"]
        if comp.get("ok"):
            return [("out-of-scope-name-accepted", "%r is not visible at byte %d (line %d), but the program was accepted; it printed %r" % (
                name, lo, p["src"].encode()[:lo].count(b"\n") + 1, (res["runs"][0].get("output") or "")[:300]))]
        if "Could not resolve identifier" not in (comp.get("errors") or ""):
            return [("out-of-scope-other-error", "expected an unresolved identifier, got %s" % (comp.get("errors") or "")[:300])]
        return []
    if not comp.get("ok"):
        return [("rejected", "generated program rejected: %s" % (comp.get("errors") or "")[:400])]
    run = res["runs"][0]
    if run.get("status") != "done":
        return [("run-status", "run ended with %s %s %s" % (run.get("status"), run.get("err"), run.get("panic")))]
    if run.get("output") != p["expect"]:
        got, exp = run["output"].split("\n"), p["expect"].split("\n")
        i = next((i for i, (g, e) in enumerate(zip(got, exp)) if g != e), min(len(got), len(exp)))
        return [("innermost", "printed line %d is %r, the innermost visible binding holds %r" % (i, got[i] if i < len(got) else None, exp[i] if i < len(exp) else None))]
    return []


KERNELS = {
    "for-variable-does-not-outlive-loop": ("let i = 10\nfor i in 3 {\n  println(i)\n}\nprintln(i)\n", "0\n1\n2\n10\n"),
    "for-variable-invisible-after-loop": ("for j in 2 {\n  println(j)\n}\nprintln(j)\n", None),
    "extend-method-parameters-do-not-leak": ("type Pt = {\n  v: int\n}\nextend Pt {\n  fn a(self, k: int) -> int = self.v + k\n  fn b(self) -> int = self.v + k\n}\nprintln(Pt(1).b())\n", None),
    "implement-method-parameters-do-not-leak": ("type Pt = {\n  v: int\n}\ninterface Two {\n  fn one(self, k: int) -> int\n  fn two(self) -> int\n}\nimplement Two for Pt {\n  fn one(self, k: int) -> int = self.v + k\n  fn two(self) -> int = self.v + k\n}\nprintln(Pt(1).two())\n", None),
    "extend-methods-see-their-own-parameters": ("type Pt = {\n  v: int\n}\nextend Pt {\n  fn a(self, k: int) -> int = self.v + k\n  fn b(self, k: int) -> int = self.v * k\n}\nprintln(Pt(3).a(2) .. \" \" .. Pt(3).b(2))\n", "5 6\n"),
}


def run(ctx):
    q = ctx.quick
    r0 = vlib.Rng(ctx.seed * 2609 + 21)
    jobs = []
    # part A
    na = 900 if q else 20000
    progs = [scopegen.ScopeGen(r0.fork("s", i), plant_unresolved=(i % 3 == 0)).gen() for i in range(na)]
    for i, p in enumerate(progs):
        jobs.append({"id": "s%06d" % i, "files": {"main.abra": p["src"]}, "runs": [{"max_steps": 500000}]})
    # part B
    nb = 1500 if q else 30000
    cases = [gen_import_case(r0.fork("i", i)) for i in range(nb)]
    for i, c in enumerate(cases):
        jobs.append({"id": "i%06d" % i, "files": dict(c["files"], **{"main.abra": c["main"]}), "runs": [{"max_steps": 200000}]})
        if c["neg"]:
            jobs.append({"id": "n%06d" % i, "files": dict(c["files"], **{"main.abra": c["neg"][0]}), "runs": [{"max_steps": 200000}]})
    kjobs = {name: {"id": "k-" + name, "files": {"main.abra": src}, "runs": [{}]} for name, (src, exp) in KERNELS.items()}
    jobs += list(kjobs.values())
    results = ctx.run(jobs)
    ok_a = ok_b = planted_ok = 0
    forms = {}
    outcomes = {"clash": 0, "resolved": 0, "invisible-rejected": 0}
    for i, p in enumerate(progs):
        job = jobs[i]
        found = judge_scope(p, results[job["id"]])
        for cls, what in found:
            sig = "%s scope %s %s" % (PROP, cls, vlib.hhex(p["src"])[:10])
            ctx.candidate(sig, what + "\n--- program ---\n" + p["src"], job, lambda r, p=p, sig=sig, cls=cls: [(sig, w) for c, w in judge_scope(p, r) if c == cls])
        if not found:
            ok_a += 1
            planted_ok += bool(p.get("planted"))
    for i, c in enumerate(cases):
        res = results["i%06d" % i]
        rn = results.get("n%06d" % i)
        found = judge_import(c, res, rn)
        files = dict(c["files"], **{"main.abra": c["main"]})
        for cls, what in found:
            sig = "%s import %s %s" % (PROP, cls, vlib.hhex(repr(sorted(files.items())))[:10])
            if cls.startswith("invisible"):
                job = {"id": "confirm", "files": dict(c["files"], **{"main.abra": c["neg"][0]}), "runs": [{"max_steps": 200000}]}
                jf = lambda r, c=c, sig=sig, cls=cls: [(sig, w) for k, w in judge_import(dict(c, clashes=["<skip>"]), {"compile": {"ok": False, "errors": "`<skip>` was declared more than once"}}, r) if k == cls]
            else:
                job = {"id": "confirm", "files": files, "runs": [{"max_steps": 200000}]}
                jf = lambda r, c=c, sig=sig, cls=cls: [(sig, w) for k, w in judge_import(c, r, None) if k == cls]
            ctx.candidate(sig, what + "\n--- files ---\n" + "\n".join("## %s\n%s" % kv for kv in sorted(files.items())), job, jf)
        if not found:
            ok_b += 1
            for f in c["forms"].values():
                forms[f] = forms.get(f, 0) + 1
            outcomes["clash" if c["clashes"] else "resolved"] += 1
            outcomes["invisible-rejected"] += bool(c["neg"])
    for name, (src, exp) in KERNELS.items():
        res = results["k-" + name]

        def kj(res, name=name, exp=exp):
            sig = "%s kernel:%s" % (PROP, name)
            comp = res.get("compile", {})
            if exp is None:
                return [] if (not comp.get("ok") and "Could not resolve identifier" in (comp.get("errors") or "")) else [(sig, "expected an unresolved identifier, got %s" % str(comp)[:200])]
            if not comp.get("ok"):
                return [(sig, "rejected: %s" % str(comp)[:300])]
            return [] if res["runs"][0].get("output") == exp else [(sig, "printed %r, expected %r" % (res["runs"][0].get("output"), exp))]
        for sig, what in kj(res):
            ctx.candidate(sig, what + "\n--- program ---\n" + src, kjobs[name], kj)
    ctx.coverage(
        evaluations=len(jobs),
        distinct_nontrivial=ok_a + ok_b,
        rule="evaluation = one program compiled (and run when accepted); distinct = scope programs whose output equalled the model or whose "
             "planted out-of-scope use was rejected, plus import configurations whose clash / resolution / invisible-name outcome matched the namespace model",
        samples=[{"import_case": {"files": dict(cases[0]["files"], **{"main.abra": cases[0]["main"]}), "clashes": cases[0]["clashes"], "expected_output": cases[0]["expect"]}}],
        scope_programs_confirmed=ok_a,
        planted_out_of_scope_uses_rejected=planted_ok,
        import_cases_confirmed=ok_b,
        import_forms=forms,
        import_outcomes=outcomes,
    )
    ctx.need(ok_a >= 0.9 * len(progs) or bool(ctx.candidates), "fewer than 90% of the scope programs confirmed")
    ctx.need(ok_b >= 0.9 * len(cases) or bool(ctx.candidates), "fewer than 90% of the import cases confirmed")
    ctx.need(outcomes["clash"] >= 100 and outcomes["resolved"] >= 100 and planted_ok >= 50, "too few outcomes of each kind: %s planted=%d" % (outcomes, planted_ok))


def replay(ctx, rep):
    res = ctx.ex.run_alone(rep["job"])
    print(__import__("json").dumps(res)[:3000])
