"""E1: typed program generator, pretty-printer and reference interpreter for the core language.

The AST is ours (python tuples), not abra's. `gen_program(rng, cfg)` builds a well-typed program,
`emit(prog)` prints it as Abra source, `interpret(prog)` evaluates it by the documented semantics
(book/src/language_reference): left-to-right evaluation, checked 64-bit integer arithmetic with
the documented runtime errors, short-circuit and/or, block scoping and shadowing, reference
semantics for arrays and structs, capture by value at lambda creation, first matching arm,
ToString renderings. The interpreter yields (printed output, final value rendering, error).
"""
import sys
from checks.abra import strlit

sys.setrecursionlimit(10000)
MIN, MAX = -(1 << 63), (1 << 63) - 1

# ------------------------------------------------------------------------------------------
# types
INT, BOOL, STR, VOID = "int", "bool", "string", "void"


def ann(t):
    if isinstance(t, str):
        return t
    k = t[0]
    if k == "tvar":
        return t[1]
    if k == "tuple":
        return "(" + ", ".join(ann(x) for x in t[1]) + ")"
    if k == "array":
        return "array<%s>" % ann(t[1])
    if k in ("struct", "enum"):
        return t[1]
    if k == "option":
        return "option<%s>" % ann(t[1])
    if k == "result":
        return "result<%s, %s>" % (ann(t[1]), ann(t[2]))
    if k == "fn":
        if len(t[1]) == 1 and isinstance(t[1][0], str):
            return "%s -> %s" % (t[1][0], ann(t[2]))
        return "(" + ", ".join(ann(x) for x in t[1]) + ") -> " + ann(t[2])
    raise ValueError(t)


def spellable(t):
    """can the type be written as an annotation? (function types without parameters cannot)"""
    if isinstance(t, str):
        return True
    if t[0] == "fn":
        return len(t[1]) > 0 and all(spellable(x) for x in t[1]) and spellable(t[2])
    if t[0] in ("tuple",):
        return all(spellable(x) for x in t[1])
    if t[0] in ("array", "option"):
        return spellable(t[1])
    if t[0] == "result":
        return spellable(t[1]) and spellable(t[2])
    return True


def printable(t):
    if t in (INT, BOOL, STR, VOID):
        return True
    k = t[0]
    if k == "tuple":
        return 2 <= len(t[1]) <= 4 and all(printable(x) for x in t[1])
    if k == "array":
        return printable(t[1])
    if k == "option":
        return printable(t[1])
    if k == "result":
        return printable(t[1]) and printable(t[2])
    return False


def equatable(t):
    if t in (INT, BOOL, STR, VOID):
        return True
    k = t[0]
    if k == "tuple":
        return 2 <= len(t[1]) <= 4 and all(equatable(x) for x in t[1])
    if k == "array":
        return equatable(t[1])
    return False


def orderable(t):
    if t in (INT, BOOL, STR, VOID):
        return True
    if t[0] == "tuple":
        return 2 <= len(t[1]) <= 4 and all(orderable(x) for x in t[1])
    return False


# ------------------------------------------------------------------------------------------
# runtime errors of the reference semantics

class AbraError(Exception):
    def __init__(self, kind, msg=None):
        self.kind = kind
        self.msg = msg


class TooBig(Exception):
    """the program builds a value too large to be worth running (dropped by proglib)"""


class Unsupported(Exception):
    """program left the fragment the reference interpreter models (e.g. step cap)"""


class BreakEx(Exception):
    pass


class ContinueEx(Exception):
    pass


class ReturnEx(Exception):
    def __init__(self, v):
        self.v = v


class Arr:
    __slots__ = ("xs",)

    def __init__(self, xs):
        self.xs = xs


class Struct:
    __slots__ = ("name", "fs")

    def __init__(self, name, fs):
        self.name = name
        self.fs = fs  # dict


class Variant:
    __slots__ = ("enum", "name", "args")

    def __init__(self, enum, name, args):
        self.enum, self.name, self.args = enum, name, args


class Closure:
    __slots__ = ("params", "body", "env", "fname")

    def __init__(self, params, body, env, fname="<lambda>"):
        self.params, self.body, self.env, self.fname = params, body, env, fname


def render(v):
    """ToString rendering per the prelude / book (C28)."""
    if v is None:
        return "nil"
    if v is True:
        return "true"
    if v is False:
        return "false"
    if isinstance(v, int):
        return str(v)
    if isinstance(v, str):
        return v
    if isinstance(v, tuple):
        return "(" + ", ".join(render(x) for x in v) + ")"
    if isinstance(v, Arr):
        return "[ " + ", ".join(render(x) for x in v.xs) + " ]"
    if isinstance(v, Variant):
        if v.name == "none":
            return "none"
        return "%s(%s)" % (v.name, render(v.args[0]))
    raise Unsupported("render %r" % (v,))


def render_top(v):
    """structural rendering matching abra_core::vm::verif::render_value"""
    if v is True:
        return "true"
    if v is False:
        return "false"
    if v is None:
        return None
    if isinstance(v, int):
        return str(v)
    if isinstance(v, str):
        return rust_debug(v)
    return "?"  # heap values: only checked to be present


def rust_debug(s):
    out = ['"']
    for ch in s:
        o = ord(ch)
        if ch == '"':
            out.append('\\"')
        elif ch == "\\":
            out.append("\\\\")
        elif ch == "\n":
            out.append("\\n")
        elif ch == "\r":
            out.append("\\r")
        elif ch == "\t":
            out.append("\\t")
        elif ch == "\0":
            out.append("\\0")
        elif o < 0x20 or o == 0x7F:
            out.append("\\u{%x}" % o)
        else:
            out.append(ch)
    out.append('"')
    return "".join(out)


def host_arg(v):
    """rendering of a popped host-call argument as the executor logs it"""
    if v is None:
        return "nil"
    if v is True:
        return "true"
    if v is False:
        return "false"
    if isinstance(v, int):
        return str(v)
    return rust_debug(v)


def veq(a, b):
    if isinstance(a, Arr):
        return len(a.xs) == len(b.xs) and all(veq(x, y) for x, y in zip(a.xs, b.xs))
    if isinstance(a, tuple):
        return all(veq(x, y) for x, y in zip(a, b))
    return a == b


def vlt(a, b):
    """strict order for orderable values"""
    if a is None:
        return False
    if isinstance(a, bool):
        return (not a) and b
    if isinstance(a, str):
        return a.encode("utf-8") < b.encode("utf-8")
    if isinstance(a, tuple):
        for x, y in zip(a, b):
            if vlt(x, y):
                return True
            if vlt(y, x):
                return False
        return False
    return a < b


def chk(r):
    if r < MIN or r > MAX:
        raise AbraError("overflow")
    return r


def arith(op, a, b):
    if op == "+":
        return chk(a + b)
    if op == "-":
        return chk(a - b)
    if op == "*":
        return chk(a * b)
    if op == "/":
        if b == 0:
            raise AbraError("divzero")
        q = abs(a) // abs(b)
        return chk(q if (a < 0) == (b < 0) else -q)
    if op == "%":
        if b == 0:
            raise AbraError("divzero")
        return a % abs(b)
    if op == "^":
        if b < 0:
            raise Unsupported("negative exponent")
        if a in (0, 1, -1) or b < 128:
            return chk(a ** b)
        raise AbraError("overflow")
    raise ValueError(op)


# ------------------------------------------------------------------------------------------
# interpreter

class Interp:
    def __init__(self, prog, max_steps=200000):
        self.prog = prog
        self.out = []
        self.steps = 0
        self.max_steps = max_steps
        self.funcs = {f["name"]: f for f in prog["funcs"]}
        self.fnstack = ["<main>"]
        self.hosts = {h["name"]: h for h in prog.get("hosts", [])}
        self.host_idx = {}

    def tick(self):
        self.steps += 1
        if self.steps > self.max_steps:
            raise Unsupported("step cap")

    # environments: list of dicts name -> [value]
    def lookup(self, env, name):
        for sc in reversed(env):
            if name in sc:
                return sc[name]
        raise Unsupported("unbound %s" % name)

    def block(self, b, env):
        # ('block', ty, stmts, expr)
        env = env + [{}]
        for s in b[2]:
            self.stmt(s, env)
        if b[3] is not None:
            return self.expr(b[3], env)
        return None

    def stmt(self, s, env):
        self.tick()
        k = s[0]
        if k == "let":
            v = self.expr(s[3], env)
            env[-1][s[1]] = [v]
        elif k == "letpat":
            v = self.expr(s[2], env)
            if not self.bind(s[1], v, env[-1]):
                raise Unsupported("refutable let")
        elif k == "assign":
            self.assign(s, env)
        elif k == "expr":
            return self.expr(s[1], env)
        elif k == "print":
            v = self.expr(s[1], env)
            self.out.append(render(v) + ("\n" if s[2] else ""))
        elif k == "while":
            while True:
                self.tick()
                if not self.expr(s[1], env):
                    break
                try:
                    self.block(("block", VOID, s[2], None), env)
                except BreakEx:
                    break
                except ContinueEx:
                    continue
        elif k == "for":
            it = self.expr(s[3], env)
            if s[2] == "int":
                seq = range(0, it) if it > 0 else []
            elif s[2] == "range":
                seq = None
            else:
                seq = None
            if s[2] == "range":
                lo, hi = it
                i = lo
                while i < hi:
                    if not self.for_body(s, i, env):
                        break
                    i += 1
            elif s[2] == "int":
                for i in seq:
                    if not self.for_body(s, i, env):
                        break
            else:
                # the prelude's ArrayIterator: stop when i == len, otherwise index (so an array that
                # shrinks below the cursor during iteration fails with out-of-bounds)
                i = 0
                while True:
                    if i == len(it.xs):
                        break
                    if i > len(it.xs):
                        raise AbraError("oob")
                    if not self.for_body(s, it.xs[i], env):
                        break
                    i += 1
        elif k == "break":
            raise BreakEx()
        elif k == "continue":
            raise ContinueEx()
        elif k == "return":
            raise ReturnEx(self.expr(s[1], env) if s[1] is not None else None)
        elif k == "panic":
            raise AbraError("panic", self.expr(s[1], env))
        else:
            raise ValueError(k)
        return None

    def for_body(self, s, item, env):
        self.tick()
        sc = {}
        if not self.bind(s[1], item, sc):
            raise Unsupported("refutable for pattern")
        try:
            self.block(("block", VOID, s[4], None), env + [sc])
        except BreakEx:
            return False
        except ContinueEx:
            return True
        return True

    def assign(self, s, env):
        # ('assign', target, op, expr): target evaluated first (receiver, index), then value
        tgt, op, e = s[1], s[2], s[3]
        if tgt[0] == "var":
            cell = self.lookup(env, tgt[2])
            old = cell[0]
            v = self.expr(e, env)
            cell[0] = v if op == "=" else arith(op[0], old, v)
        elif tgt[0] == "field":
            obj = self.expr(tgt[2], env)
            old = obj.fs[tgt[3]]
            v = self.expr(e, env)
            obj.fs[tgt[3]] = v if op == "=" else arith(op[0], old, v)
        elif tgt[0] == "index":
            arr = self.expr(tgt[2], env)
            idx = self.expr(tgt[3], env)
            if op == "=":
                v = self.expr(e, env)
                if idx < 0 or idx >= len(arr.xs):
                    raise AbraError("oob")
                arr.xs[idx] = v
            else:
                # a[i] op= v  ==  a[i] = a[i] op v
                if idx < 0 or idx >= len(arr.xs):
                    raise AbraError("oob")
                old = arr.xs[idx]
                v = self.expr(e, env)
                r = arith(op[0], old, v)
                if idx >= len(arr.xs):
                    raise AbraError("oob")
                arr.xs[idx] = r
        else:
            raise ValueError(tgt)

    def bind(self, p, v, sc):
        k = p[0]
        if k == "pwild":
            return True
        if k == "pbind":
            sc[p[1]] = [v]
            return True
        if k == "plit":
            return veq(p[1], v) if not isinstance(p[1], bool) else (p[1] is v)
        if k == "ptuple":
            return all(self.bind(q, x, sc) for q, x in zip(p[1], v))
        if k == "pvariant":
            if v.name != p[1]:
                return False
            return all(self.bind(q, x, sc) for q, x in zip(p[2], v.args))
        if k == "pstruct":
            return all(self.bind(q, v.fs[f], sc) for f, q in p[2])
        if k == "por":
            for alt in p[1]:
                tmp = {}
                if self.bind(alt, v, tmp):
                    sc.update(tmp)
                    return True
            return False
        raise ValueError(p)

    def call(self, clo, args):
        self.tick()
        if len(self.fnstack) > 150:
            raise Unsupported("deep recursion")
        sc = {}
        for (n, _t), a in zip(clo.params, args):
            sc[n] = [a]
        self.fnstack.append(clo.fname)
        try:
            body = clo.body
            if body[0] == "block":
                return self.block(body, clo.env + [sc])
            return self.expr(body, clo.env + [sc])
        except ReturnEx as r:
            return r.v
        finally:
            self.fnstack.pop()

    def expr(self, e, env):
        self.tick()
        k = e[0]
        if k == "lit":
            return e[2]
        if k == "var":
            return self.lookup(env, e[2])[0]
        if k == "bin":
            op = e[2]
            if op == "and":
                return self.expr(e[3], env) and self.expr(e[4], env)
            if op == "or":
                return self.expr(e[3], env) or self.expr(e[4], env)
            a = self.expr(e[3], env)
            b = self.expr(e[4], env)
            if op in ("+", "-", "*", "/", "%", "^"):
                return arith(op, a, b)
            if op == "..":
                s_ = render(a) + render(b)
                if len(s_) > 100000:
                    # a string doubled in a loop: neither the reference nor the VM should be asked
                    raise TooBig("string of %d bytes" % len(s_))
                return s_
            if op == "==":
                return veq(a, b)
            if op == "!=":
                return not veq(a, b)
            if op == "<":
                return vlt(a, b)
            if op == ">":
                return vlt(b, a)
            if op == "<=":
                return not vlt(b, a)
            if op == ">=":
                return not vlt(a, b)
            raise ValueError(op)
        if k == "neg":
            return chk(-self.expr(e[2], env))
        if k == "not":
            return not self.expr(e[2], env)
        if k == "if":
            c = self.expr(e[2], env)
            if c:
                return self.block(e[3], env)
            if e[4] is not None:
                return self.block(e[4], env)
            return None
        if k == "block":
            return self.block(e, env)
        if k == "match":
            v = self.expr(e[2], env)
            for pat, body in e[3]:
                sc = {}
                if self.bind(pat, v, sc):
                    return self.expr(body, env + [sc])
            raise Unsupported("no arm matched")
        if k == "call":
            f = self.funcs[e[2]]
            names = e[4] if len(e) > 4 else None
            if names is None and len(e[3]) == len(f["params"]):
                args = [self.expr(a, env) for a in e[3]]
            else:
                # named / omitted arguments: bound like the positional call with the defaults filled
                # in, and evaluated in parameter order
                names = names or (None,) * len(e[3])
                pnames = [pn for pn, _ in f["params"]]
                slot = {}
                for i, (a, nm) in enumerate(zip(e[3], names)):
                    slot[i if nm is None else pnames.index(nm)] = a
                args = []
                for i in range(len(pnames)):
                    if i in slot:
                        args.append(self.expr(slot[i], env))
                    else:
                        args.append(self.expr(f["defaults"][i], [self.globals]))
            return self.call(Closure(f["params"], f["body"], [self.globals], f["name"]), args)
        if k == "mcall":
            # receiver first, then the arguments in parameter order
            f = self.funcs[e[3]]
            recv = self.expr(e[2], env)
            names = e[5] if len(e) > 5 and e[5] else (None,) * len(e[4])
            pnames = [pn for pn, _ in f["params"]][1:]
            slot = {}
            for i, (a, nm) in enumerate(zip(e[4], names)):
                slot[i if nm is None else pnames.index(nm)] = a
            args = [recv]
            for i in range(len(pnames)):
                if i in slot:
                    args.append(self.expr(slot[i], env))
                else:
                    args.append(self.expr(f["defaults"][i + 1], [self.globals]))
            return self.call(Closure(f["params"], f["body"], [self.globals], f["name"]), args)
        if k == "calll":
            clo = self.expr(e[2], env)
            args = [self.expr(a, env) for a in e[3]]
            return self.call(clo, args)
        if k == "lam":
            # capture by value at creation: snapshot the visible bindings into fresh cells
            snap = {}
            for sc in env:
                for n, cell in sc.items():
                    snap[n] = [cell[0]]
            return Closure(e[2], e[3], [self.globals, snap])
        if k == "tuple":
            return tuple(self.expr(x, env) for x in e[2])
        if k == "array":
            return Arr([self.expr(x, env) for x in e[2]])
        if k == "struct":
            sd = self.prog["structs"][e[2]]
            vals = [self.expr(x, env) for x in e[3]]
            return Struct(e[2], {f: v for (f, _t), v in zip(sd, vals)})
        if k == "variant":
            return Variant(e[2], e[3], tuple(self.expr(x, env) for x in e[4]))
        if k == "field":
            return self.expr(e[2], env).fs[e[3]]
        if k == "index":
            arr = self.expr(e[2], env)
            idx = self.expr(e[3], env)
            if idx < 0 or idx >= len(arr.xs):
                raise AbraError("oob")
            return arr.xs[idx]
        if k == "method":
            recv = self.expr(e[2], env)
            m = e[3]
            args = [self.expr(a, env) for a in e[4]]
            if m == "len":
                return len(recv.xs)
            if m == "push":
                recv.xs.append(args[0])
                return None
            if m == "pop":
                if not recv.xs:
                    raise AbraError("any")
                return recv.xs.pop()
            if m == "is_empty":
                return len(recv.xs) == 0
            raise ValueError(m)
        if k == "try":
            v = self.expr(e[2], env)
            if v.name in ("some", "ok"):
                return v.args[0]
            raise ReturnEx(v if v.name == "err" else Variant("option", "none", ()))
        if k == "unwrap":
            v = self.expr(e[2], env)
            if v.name in ("some", "ok"):
                return v.args[0]
            raise AbraError("panic", "cannot unwrap option.none" if v.name == "none" else "cannot unwrap result.err")
        if k == "str":
            return render(self.expr(e[2], env))
        if k == "hcall":
            h = self.hosts[e[2]]
            args = [self.expr(a, env) for a in e[3]]
            self.out.append("<<%s(%s)>>\n" % (e[2], ";".join(host_arg(a) for a in args)))
            i = self.host_idx.get(e[2], 0)
            self.host_idx[e[2]] = i + 1
            if h["ret"] == VOID:
                return None
            reps = h["replies"]
            return reps[i] if i < len(reps) else reps[-1]
        raise ValueError(k)

    @property
    def globals(self):
        return self._globals

    def run_program(self):
        self._globals = {}
        self._globals_env = [self._globals]
        # top-level statements run in the global scope so functions see top-level bindings
        env = [self._globals]
        final = None
        err = None
        try:
            stmts = self.prog["main"]
            for i, s in enumerate(stmts):
                v = self.stmt(s, env)
                if i == len(stmts) - 1 and s[0] == "expr":
                    final = v
                else:
                    final = None
        except AbraError as e:
            err = (e.kind, e.msg)
            final = None
        except ReturnEx:
            final = None
        return {"output": "".join(self.out), "final": final, "err": err, "steps": self.steps}


def interpret(prog, max_steps=200000):
    it = Interp(prog, max_steps)
    return it.run_program()


# ------------------------------------------------------------------------------------------
# printer

# separators of the printer; checks/c29.py swaps them for markers that are replaced by random choices
LSEP, SSEP, NSEP = ", ", "; ", ""

PREC = {"and": 1, "or": 1, "==": 2, "!=": 2, "..": 3, "<": 5, "<=": 5, ">": 5, ">=": 5, "+": 6, "-": 6, "*": 7, "/": 7, "%": 8, "^": 9}


class Emitter:
    def __init__(self):
        self.lines = []
        self.ind = 0

    def w(self, s):
        self.lines.append("  " * self.ind + s)

    def lineno(self):
        return len(self.lines)  # 1-based number of the NEXT line is len+1


BARE_ITEMS = False   # print a negative literal / a unary minus that is a list item without parentheses


def pitem(x):
    """an element of an argument list, tuple or array"""
    if BARE_ITEMS:
        if x[0] == "lit" and isinstance(x[2], int) and not isinstance(x[2], bool) and x[2] < 0:
            return str(x[2])
        if x[0] == "neg":
            return "-%s" % pexpr(x[2])
    return pexpr(x)


def pexpr(e, em=None, top=False):
    """expression -> single-line source text (blocks are printed inline with ';')."""
    k = e[0]
    if k == "lit":
        v = e[2]
        if v is None:
            return "nil"
        if v is True:
            return "true"
        if v is False:
            return "false"
        if isinstance(v, int):
            return "(%d)" % v if v < 0 else str(v)
        return strlit(v)
    if k == "var":
        return e[2]
    if k == "bin":
        return "(%s %s %s)" % (pexpr(e[3]), e[2], pexpr(e[4]))
    if k == "neg":
        return "(-%s)" % pexpr(e[2])
    if k == "not":
        return "(not %s)" % pexpr(e[2])
    if k == "if":
        s = "if %s %s" % (pexpr(e[2]), pblock_inline(e[3]))
        if e[4] is not None:
            s += " else %s" % pblock_inline(e[4])
        return "(%s)" % s if not top else s
    if k == "block":
        return pblock_inline(e)
    if k == "match":
        arms = LSEP.join("%s -> %s" % (ppat(p), pexpr(b)) for p, b in e[3])
        s = "match %s { %s }" % (pexpr(e[2]), arms)
        return "(%s)" % s if not top else s
    if k == "call":
        names = e[4] if len(e) > 4 and e[4] else (None,) * len(e[3])
        return "%s(%s)" % (e[2], LSEP.join(pitem(a) if nm is None else "%s = %s" % (nm, pexpr(a)) for a, nm in zip(e[3], names)))
    if k == "mcall":
        names = e[5] if len(e) > 5 and e[5] else (None,) * len(e[4])
        recv = pexpr(e[2])
        if e[2][0] not in ("var", "field", "index", "call", "mcall", "struct"):
            recv = "(" + recv + ")" if not recv.startswith("(") else recv
        return "%s.%s(%s)" % (recv, e[3], LSEP.join(pitem(a) if nm is None else "%s = %s" % (nm, pexpr(a)) for a, nm in zip(e[4], names)))
    if k == "calll":
        return "%s(%s)" % (pexpr(e[2]), LSEP.join(pitem(a) for a in e[3]))
    if k == "lam":
        ps = LSEP.join("%s: %s" % (n, ann(t)) for n, t in e[2])
        body = pexpr(e[3]) if e[3][0] != "block" else pblock_inline(e[3])
        return "((%s) -> %s)" % (ps, body) if not top else "(%s) -> %s" % (ps, body)
    if k == "tuple":
        return "(" + LSEP.join(pitem(x) for x in e[2]) + ")"
    if k == "array":
        return "[" + LSEP.join(pitem(x) for x in e[2]) + "]"
    if k == "struct":
        return "%s(%s)" % (e[2], LSEP.join(pitem(x) for x in e[3]))
    if k == "variant":
        if not e[4]:
            return "%s.%s" % (e[2], e[3])
        return "%s.%s(%s)" % (e[2], e[3], LSEP.join(pitem(x) for x in e[4]))
    if k == "field":
        return "%s.%s" % (pexpr(e[2]), e[3])
    if k == "index":
        return "%s[%s]" % (pexpr(e[2]), pexpr(e[3]))
    if k == "method":
        return "%s.%s(%s)" % (pexpr(e[2]), e[3], LSEP.join(pitem(a) for a in e[4]))
    if k == "try":
        return "%s?" % pexpr(e[2])
    if k == "unwrap":
        return "%s!" % pexpr(e[2])
    if k == "str":
        return "ToString.str(%s)" % pexpr(e[2])
    if k == "hcall":
        return "%s(%s)" % (e[2], LSEP.join(pitem(a) for a in e[3]))
    raise ValueError(k)


def ppat(p):
    k = p[0]
    if k == "pwild":
        return "_"
    if k == "pbind":
        return p[1]
    if k == "plit":
        v = p[1]
        if v is True:
            return "true"
        if v is False:
            return "false"
        if v is None:
            return "nil"
        if isinstance(v, int):
            return str(v)
        return strlit(v)
    if k == "ptuple":
        return "(" + LSEP.join(ppat(q) for q in p[1]) + ")"
    if k == "pvariant":
        if not p[2]:
            return "." + p[1]
        return ".%s(%s)" % (p[1], LSEP.join(ppat(q) for q in p[2]))
    if k == "pstruct":
        if p[3]:
            return "%s(%s)" % (p[1], LSEP.join("%s = %s" % (f, ppat(q)) for f, q in p[2]))
        return "%s(%s)" % (p[1], LSEP.join(ppat(q) for f, q in p[2]))
    if k == "por":
        return " | ".join(ppat(q) for q in p[1])
    raise ValueError(p)


def pstmt_inline(s):
    k = s[0]
    if k == "let":
        return "%s %s%s = %s" % ("var" if s[4] else "let", s[1], (": " + ann(s[2])) if s[5] else "", pexpr(s[3], top=True))
    if k == "letpat":
        return "let %s = %s" % (ppat(s[1]), pexpr(s[2], top=True))
    if k == "assign":
        return "%s %s %s" % (pexpr(s[1]), s[2], pexpr(s[3], top=True))
    if k == "expr":
        return pexpr(s[1], top=True)
    if k == "print":
        return "%s(%s)" % ("println" if s[2] else "print", pexpr(s[1], top=True))
    if k == "while":
        return "while %s { %s }" % (pexpr(s[1]), SSEP.join(pstmt_inline(x) for x in s[2]))
    if k == "for":
        return "for %s in %s { %s }" % (ppat(s[1]), piter(s), SSEP.join(pstmt_inline(x) for x in s[4]))
    if k == "break":
        return "break"
    if k == "continue":
        return "continue"
    if k == "return":
        # a bare `return` directly before `}` on one line does not parse; spell the nil
        return "return nil" if s[1] is None else "return %s" % pexpr(s[1], top=True)
    if k == "panic":
        return "panic(%s)" % pexpr(s[1])
    raise ValueError(k)


def piter(s):
    if s[2] == "range":
        # the iterable expression evaluates to (lo, hi) in the interpreter: printed as range(lo, hi)
        lo, hi = s[3][2]
        return "range(%s, %s)" % (pexpr(lo), pexpr(hi))
    return pexpr(s[3])


def pblock_inline(b):
    parts = [pstmt_inline(s) for s in b[2]]
    if b[3] is not None:
        parts.append(pexpr(b[3], top=True))
    return "{ " + SSEP.join(parts) + " }"


def emit_stmts(em, stmts, linemap, more=False):
    """statement list; a statement that is followed by another one (or by the block's final
    expression when `more`) gets the optional-separator marker NSEP"""
    for i, x in enumerate(stmts):
        emit_stmt(em, x, linemap, sep=(i + 1 < len(stmts) or more))


def emit_stmt(em, s, linemap, sep=False):
    """multi-line statement printer; records the line of every statement id in linemap"""
    k = s[0]
    tail = NSEP if sep else ""
    if k == "while":
        em.w("while %s {" % pexpr(s[1]))
        em.ind += 1
        emit_stmts(em, s[2], linemap)
        em.ind -= 1
        em.w("}" + tail)
    elif k == "for":
        em.w("for %s in %s {" % (ppat(s[1]), piter(s)))
        em.ind += 1
        emit_stmts(em, s[4], linemap)
        em.ind -= 1
        em.w("}" + tail)
    elif k == "expr" and s[1][0] == "if" and s[1][1] == VOID:
        e = s[1]
        em.w("if %s {" % pexpr(e[2]))
        em.ind += 1
        emit_stmts(em, e[3][2], linemap, more=e[3][3] is not None)
        if e[3][3] is not None:
            em.w(pexpr(e[3][3], top=True))
        em.ind -= 1
        if e[4] is not None:
            em.w("} else {")
            em.ind += 1
            emit_stmts(em, e[4][2], linemap, more=e[4][3] is not None)
            if e[4][3] is not None:
                em.w(pexpr(e[4][3], top=True))
            em.ind -= 1
        em.w("}" + tail)
    else:
        em.w(pstmt_inline(s) + tail)
    linemap[id(s)] = len(em.lines)


def emit(prog, before_main=None):
    """-> (source text, linemap); `before_main` = extra source lines placed after the declarations
    and before the first top-level statement"""
    em = Emitter()
    linemap = {}
    for h in prog.get("hosts", []):
        em.w("#host")
        em.w("fn %s(%s) -> %s" % (h["name"], ", ".join("h%d: %s" % (i, t) for i, t in enumerate(h["params"])), h["ret"]))
    def main_part():
        for ln in before_main or []:
            em.w(ln)
        emit_stmts(em, prog["main"], linemap)

    # declarations may follow the statements that use them: the program is the same
    if prog.get("decls_last"):
        main_part()
    for name, fields in prog["structs"].items():
        em.w("type %s = {" % name)
        for f, t in fields:
            em.w("  %s: %s" % (f, ann(t)))
        em.w("}")
    for name, variants in prog["enums"].items():
        em.w("type %s =" % name)
        for v, ts in variants:
            em.w("  | %s%s" % (v, ("(" + ", ".join(ann(t) for t in ts) + ")") if ts else ""))
    for f in prog["funcs"]:
        if f.get("method_of"):
            continue
        dfl = f.get("defaults") or {}
        ps = LSEP.join("%s: %s%s" % (n, f.get("param_anns", {}).get(n) or ann(t), (" = " + pexpr(dfl[i])) if i in dfl else "")
                       for i, (n, t) in enumerate(f["params"]))
        em.w("fn %s(%s) -> %s {" % (f["name"], ps, ann(f["ret"])))
        em.ind += 1
        b = f["body"]
        emit_stmts(em, b[2], linemap, more=b[3] is not None)
        if b[3] is not None:
            em.w(pexpr(b[3], top=True))
        em.ind -= 1
        em.w("}")
    for f in prog["funcs"]:
        if not f.get("method_of"):
            continue
        dfl = f.get("defaults") or {}
        ps = LSEP.join(["self"] + ["%s: %s%s" % (n, ann(t), (" = " + pexpr(dfl[i])) if i in dfl else "")
                                   for i, (n, t) in enumerate(f["params"]) if i > 0])
        em.w("extend %s {" % f["method_of"])
        em.ind += 1
        em.w("fn %s(%s) -> %s {" % (f["name"], ps, ann(f["ret"])))
        em.ind += 1
        b = f["body"]
        emit_stmts(em, b[2], linemap, more=b[3] is not None)
        if b[3] is not None:
            em.w(pexpr(b[3], top=True))
        em.ind -= 1
        em.w("}")
        em.ind -= 1
        em.w("}")
    if not prog.get("decls_last"):
        main_part()
    return "\n".join(em.lines) + "\n", linemap


# ------------------------------------------------------------------------------------------
# generator

class Scope:
    def __init__(self):
        self.vars = []  # (name, type, mutable)


class Gen:
    def __init__(self, rng, cfg=None):
        self.r = rng
        self.cfg = dict(size=40, depth=4, jumps_in_operands=True, lambdas=True, structs=True, enums=True,
                        errors=True, nested_lambdas=True, trymode=True, hosts=False, generics=True)
        if cfg:
            self.cfg.update(cfg)
        self.structs = {}
        self.enums = {}
        self.funcs = []
        self.scopes = []
        self.nid = 0
        self.fuel = self.cfg["size"]
        self.loop_depth = 0
        self.in_lambda = 0
        self.ret_ty = None       # return type of the enclosing function (None at top level)
        self.lambda_base = 0
        self.in_expr = 0
        self.features = set()
        self.hosts = []
        self.generics = []

    def fresh(self, p="v"):
        self.nid += 1
        return "%s%d" % (p, self.nid)

    # -- scopes
    def push(self):
        self.scopes.append(Scope())

    def pop(self):
        self.last_popped = self.scopes.pop()
        return self.last_popped

    def probe_after_scope(self, popped):
        """-> [print of an outer variable that a declaration inside the just-closed scope shadowed]:
        after the scope the name means the outer binding again"""
        outer = {n: (t, m) for (n, t, m) in self.visible()}
        for (n, t, m) in popped.vars:
            if n in outer and printable(outer[n][0]) and outer[n][0] != VOID:
                self.features.add("use-after-shadowing-scope")
                return [("print", ("var", outer[n][0], n), True)]
        return []

    def declare(self, name, ty, mut):
        self.scopes[-1].vars.append((name, ty, mut))

    def visible(self):
        seen = {}
        for sc in self.scopes:
            for (n, t, m) in sc.vars:
                seen[n] = (n, t, m)
        return list(seen.values())

    def vars_of(self, ty):
        return [n for (n, t, m) in self.visible() if t == ty]

    def scopes_since_lambda(self):
        out = []
        for sc in self.scopes[self.lambda_base:]:
            out.extend(sc.vars)
        return out

    # -- types
    def rand_scalar(self):
        return self.r.choice([INT, INT, INT, BOOL, STR])

    def rand_type(self, depth=2, allow_fn=False):
        r = self.r
        k = r.below(14)
        if depth <= 0 or k < 6:
            return self.rand_scalar()
        if k == 6:
            n = r.range(2, 3)
            return ("tuple", tuple(self.rand_type(depth - 1) if not r.chance(10) else VOID for _ in range(n)))
        if k == 7:
            return ("array", self.rand_type(depth - 1))
        if k == 8 and self.structs:
            return ("struct", r.choice(list(self.structs)))
        if k == 9 and self.enums:
            return ("enum", r.choice(list(self.enums)))
        if k == 10:
            return ("option", self.rand_type(depth - 1))
        if k == 11:
            return ("result", self.rand_type(depth - 1), r.choice([STR, INT]))
        if (k == 12 or (self.cfg.get("lambda_focus") and k >= 9)) and allow_fn and self.cfg["lambdas"] and (not self.in_lambda or self.cfg["nested_lambdas"]):
            if self.cfg.get("lambda_focus"):
                return self.rand_fn_type(2 if self.in_lambda < 2 else 1)
            return ("fn", (self.rand_scalar(),), self.rand_scalar())
        return self.rand_scalar()

    def rand_fn_type(self, depth, spell=True):
        """function types for the lambda-focused mode: 0-2 scalar parameters; the result may itself
        be a function (closure chains such as x -> y -> x + y + a). A function type without
        parameters cannot be written down, so it only appears where no annotation is needed."""
        r = self.r
        params = tuple(self.rand_scalar() for _ in range(r.choice([1, 1, 1, 2] if spell else [0, 1, 1, 1, 2])))
        if depth > 1 and r.chance(30):
            ret = self.rand_fn_type(depth - 1, spell)
        else:
            ret = self.rand_scalar()
        return ("fn", params, ret)

    def setup_hosts(self):
        r = self.r
        for i in range(r.range(1, 3)):
            params = [r.choice([INT, INT, BOOL, STR]) for _ in range(r.range(0, 3))]
            ret = r.choice([INT, INT, BOOL, STR, VOID])
            if ret == INT:
                reps = [r.choice([0, 1, 7, -3, 100, MAX, MIN]) for _ in range(3)]
            elif ret == BOOL:
                reps = [r.chance(50) for _ in range(3)]
            elif ret == STR:
                reps = [r.choice(["", "h", "reply", "é€", "a b"]) for _ in range(3)]
            else:
                reps = []
            self.hosts.append({"name": "hf%d" % i, "params": params, "ret": ret, "replies": reps})

    def hcall(self, h, d):
        self.features.add("host-call")
        return ("hcall", h["ret"], h["name"], [self.expr(t, d - 1) for t in h["params"]])

    def setup_types(self):
        r = self.r
        if self.cfg["structs"]:
            for _ in range(r.range(0, 2)):
                name = "St" + self.fresh("")
                nf = r.range(1, 3)
                fields = []
                for i in range(nf):
                    t = VOID if r.chance(8) else self.rand_type(1)
                    fields.append(("f%d" % i, t))
                self.structs[name] = fields
        if self.cfg["enums"]:
            for _ in range(r.range(0, 2)):
                name = "En" + self.fresh("")
                nv = r.range(2, 3)
                vs = []
                for i in range(nv):
                    np_ = r.choice([0, 0, 1, 1, 2])
                    vs.append(("Va%d%s" % (i, name[2:]), [self.rand_type(1) if not r.chance(8) else VOID for _ in range(np_)]))
                self.enums[name] = vs

    # -- expressions
    def spend(self, n=1):
        self.fuel -= n

    def lit(self, ty):
        r = self.r
        if ty == INT:
            k = r.below(20)
            if k == 0 and self.cfg["errors"]:
                return ("lit", INT, r.choice([MAX, MIN, MAX - 1, 1 << 62, -(1 << 62), 3037000500]))
            if k < 4:
                return ("lit", INT, r.range(-20, 100))
            return ("lit", INT, r.range(0, 9))
        if ty == BOOL:
            return ("lit", BOOL, r.chance(50))
        if ty == STR:
            return ("lit", STR, r.choice(["", "a", "b", "ab", "xyz", "é", "q r", "0", "€"]))
        if ty == VOID:
            return ("lit", VOID, None)
        raise ValueError(ty)

    def expr(self, ty, d):
        """expression of type ty, nesting budget d"""
        self.in_expr += 1
        try:
            return self.expr_(ty, d)
        finally:
            self.in_expr -= 1

    def expr_(self, ty, d):
        self.spend()
        if d <= 0 or self.fuel <= 0:
            return self.leaf(ty)
        if ty == INT:
            return self.int_expr(d)
        if ty == BOOL:
            return self.bool_expr(d)
        if ty == STR:
            return self.str_expr(d)
        if ty == VOID:
            return ("lit", VOID, None)
        return self.compound_expr(ty, d)

    def leaf(self, ty):
        vs = self.vars_of(ty)
        if vs and self.r.chance(60):
            return ("var", ty, self.r.choice(vs))
        if ty in (INT, BOOL, STR, VOID):
            return self.lit(ty)
        return self.construct(ty, 0)

    def common(self, ty, d):
        """type-independent expression forms; returns None if not chosen"""
        r = self.r
        k = r.below(100)
        vs = self.vars_of(ty)
        if k < 22 and vs:
            return ("var", ty, r.choice(vs))
        if k < 30:
            self.features.add("if-expr")
            return ("if", ty, self.expr(BOOL, d - 1), self.block(ty, d - 1, r.range(0, 1)), self.block(ty, d - 1, r.range(0, 1)))
        if k < 36:
            self.features.add("block-expr")
            return self.block(ty, d - 1, r.range(1, 2))
        if k < 42:
            m = self.match_expr(ty, d)
            if m:
                return m
        if self.hosts and k >= 42 and k < 47:
            hs = [h for h in self.hosts if h["ret"] == ty]
            if hs:
                return self.hcall(r.choice(hs), d)
        if k >= 47 and k < 52 and self.generics and r.chance(50):
            g = self.generic_call(ty, lambda t: self.expr(t, d - 1), lambda: self.rand_inst())
            if g:
                return g
        if k < 52:
            if r.chance(30):
                m = self.method_call(ty, d)
                if m:
                    return m
            fs = [f for f in self.funcs if f["ret"] == ty and f.get("callable", True) and not f.get("method_of")]
            if fs:
                f = r.choice(fs)
                self.features.add("call")
                return self.call_node(f, d)
        if k < 58:
            # field of a struct variable / element of an array variable
            cands = []
            for (n, t, m) in self.visible():
                if t[0] == "struct":
                    for f, ft in self.structs[t[1]]:
                        if ft == ty:
                            cands.append(("field", ty, ("var", t, n), f))
                if t == ("array", ty):
                    cands.append(("aidx", n, t))
            if cands:
                c = r.choice(cands)
                if c[0] == "field":
                    self.features.add("field")
                    return c
                self.features.add("index")
                arr = ("var", c[2], c[1])
                if r.chance(25) and self.cfg["errors"]:
                    return ("index", ty, arr, self.expr(INT, 1))
                # guarded: if len > k { a[k] } else { default }
                kk = r.range(0, 2)
                guard = ("bin", BOOL, ">", ("method", INT, arr, "len", []), ("lit", INT, kk))
                return ("if", ty, guard, ("block", ty, [], ("index", ty, arr, ("lit", INT, kk))), ("block", ty, [], self.leaf(ty)))
        if k < 62 and self.cfg["lambdas"]:
            fvs = [(n, t) for (n, t, m) in self.visible() if t[0] == "fn" and t[2] == ty]
            if fvs:
                n, t = r.choice(fvs)
                self.features.add("lambda-call")
                return ("calll", ty, ("var", t, n), [self.expr(a, d - 1) for a in t[1]])
        if k < 66:
            ovs = [(n, t) for (n, t, m) in self.visible() if t[0] in ("option", "result") and t[1] == ty]
            if ovs:
                n, t = r.choice(ovs)
                if self.ret_ty is not None and self.cfg["trymode"] and not self.in_lambda and (
                        (t[0] == "option" and self.ret_ty[0] == "option") or (t[0] == "result" and self.ret_ty[0] == "result" and self.ret_ty[2] == t[2])) and r.chance(60):
                    self.features.add("try")
                    return ("try", ty, ("var", t, n))
                if self.cfg["errors"]:
                    self.features.add("unwrap")
                    return ("unwrap", ty, ("var", t, n))
        if k < 70:
            avs = [(n, t) for (n, t, m) in self.visible() if t == ("array", ty)]
            if avs and self.cfg["errors"] and ty != VOID:
                n, t = r.choice(avs)
                self.features.add("pop")
                arr = ("var", t, n)
                guard = ("bin", BOOL, ">", ("method", INT, arr, "len", []), ("lit", INT, 0))
                return ("if", ty, guard, ("block", ty, [], ("method", ty, arr, "pop", [])), ("block", ty, [], self.leaf(ty)))
        return None

    def int_expr(self, d):
        r = self.r
        c = self.common(INT, d)
        if c:
            return c
        k = r.below(100)
        if k < 55:
            op = r.choice(["+", "+", "-", "*", "/", "%"] + (["^"] if r.chance(15) else []))
            a = self.expr(INT, d - 1)
            b = self.expr(INT, d - 1)
            if op in ("/", "%") and not (self.cfg["errors"] and r.chance(25)):
                b = ("lit", INT, r.range(1, 7))
            if op == "^":
                b = ("lit", INT, r.range(0, 3))
            self.features.add("arith")
            return ("bin", INT, op, a, b)
        if k < 60:
            return ("neg", INT, self.expr(INT, d - 1))
        if k < 70:
            avs = [(n, t) for (n, t, m) in self.visible() if t[0] == "array"]
            if avs:
                n, t = r.choice(avs)
                return ("method", INT, ("var", t, n), "len", [])
        return self.lit(INT)

    def bool_expr(self, d):
        r = self.r
        c = self.common(BOOL, d)
        if c:
            return c
        k = r.below(100)
        if k < 40:
            t = r.choice([INT, INT, STR, BOOL])
            op = r.choice(["==", "!=", "<", "<=", ">", ">="])
            self.features.add("cmp-" + t)
            return ("bin", BOOL, op, self.expr(t, d - 1), self.expr(t, d - 1))
        if k < 50:
            # equality on a compound equatable type
            t = r.choice([("tuple", (INT, BOOL)), ("array", INT), ("tuple", (STR, INT, BOOL))])
            self.features.add("cmp-compound")
            return ("bin", BOOL, r.choice(["==", "!="]), self.expr(t, d - 1), self.expr(t, d - 1))
        if k < 72:
            self.features.add("shortcircuit")
            bvs = self.vars_of(BOOL)
            if bvs and r.chance(35):
                # a negated local as the left operand (the peephole optimizer fuses load, not and jump)
                self.features.add("shortcircuit-not-local")
                left = ("not", BOOL, ("var", BOOL, r.choice(bvs)))
            else:
                left = self.expr(BOOL, d - 1)
            return ("bin", BOOL, r.choice(["and", "or"]), left, self.expr(BOOL, d - 1))
        if k < 80:
            return ("not", BOOL, self.expr(BOOL, d - 1))
        return self.lit(BOOL)

    def str_expr(self, d):
        r = self.r
        c = self.common(STR, d)
        if c:
            return c
        k = r.below(100)
        if k < 60:
            ta = self.rand_printable(1) if r.chance(50) else STR
            tb = self.rand_printable(1) if r.chance(50) else STR
            self.features.add("concat")
            return ("bin", STR, "..", self.expr(ta, d - 1), self.expr(tb, d - 1))
        return self.lit(STR)

    def rand_printable(self, depth):
        for _ in range(6):
            t = self.rand_type(depth)
            if printable(t):
                return t
        return INT

    def construct(self, ty, d):
        k = ty[0]
        r = self.r
        if k == "tuple":
            return ("tuple", ty, [self.expr(t, d - 1) for t in ty[1]])
        if k == "array":
            n = r.range(1, 3)
            return ("array", ty, [self.expr(ty[1], d - 1) for _ in range(n)])
        if k == "struct":
            return ("struct", ty, ty[1], [self.expr(t, d - 1) for _, t in self.structs[ty[1]]])
        if k == "enum":
            v, ts = r.choice(self.enums[ty[1]])
            return ("variant", ty, ty[1], v, [self.expr(t, d - 1) for t in ts])
        if k == "option":
            if r.chance(30):
                v = ("variant", ty, "option", "none", [])
            else:
                v = ("variant", ty, "option", "some", [self.expr(ty[1], d - 1)])
            return self.typed(ty, v)
        if k == "result":
            if r.chance(35):
                v = ("variant", ty, "result", "err", [self.expr(ty[2], d - 1)])
            else:
                v = ("variant", ty, "result", "ok", [self.expr(ty[1], d - 1)])
            return self.typed(ty, v)
        if k == "fn":
            return self.lam(ty, d)
        raise ValueError(ty)

    def typed(self, ty, v):
        """option/result constructors need a type context: bind through an annotated let"""
        n = self.fresh("t")
        return ("block", ty, [("let", n, ty, v, False, True)], ("var", ty, n))

    def compound_expr(self, ty, d):
        c = self.common(ty, d) if self.r.chance(50) else None
        if c:
            return c
        return self.construct(ty, d)

    def lam(self, ty, d):
        self.features.add("lambda")
        params = [(self.fresh("p"), t) for t in ty[1]]
        saved = (self.loop_depth, self.ret_ty, getattr(self, "lambda_base", 0))
        saved_in_expr = self.in_expr
        self.in_expr = 0
        self.loop_depth = 0
        self.in_lambda += 1
        self.lambda_base = len(self.scopes)
        self.ret_ty_saved = self.ret_ty
        self.ret_ty = ty[2]
        self.push()
        for n, t in params:
            self.declare(n, t, False)
        if self.r.chance(40):
            body = self.block(ty[2], d - 1, self.r.range(1, 2))
        else:
            body = self.expr(ty[2], d - 1)
        self.pop()
        self.in_lambda -= 1
        self.in_expr = saved_in_expr
        self.loop_depth, self.ret_ty, self.lambda_base = saved
        return ("lam", ty, params, body)

    def match_expr(self, ty, d):
        r = self.r
        # scrutinee: int / bool / tuple / enum / option / result variable or expression
        choice = r.below(9)
        arms = []
        if choice == 6:
            # tuples with void components; an arm that fails on an earlier component first
            shape = r.choice([(INT, VOID), (BOOL, VOID), (INT, STR, VOID), (VOID, INT), (INT, VOID, BOOL)])
            t = ("tuple", shape)
            scrut = self.expr(t, d - 1)
            def lit_or_wild(ty, force_lit=False):
                if ty == VOID:
                    return r.choice([("pwild",), ("plit", None)])
                if ty == INT:
                    return ("plit", r.range(0, 3)) if force_lit or r.chance(60) else ("pwild",)
                if ty == BOOL:
                    return ("plit", r.chance(50)) if force_lit or r.chance(60) else ("pwild",)
                return ("plit", r.choice(["", "a", "xyz"])) if force_lit or r.chance(50) else ("pwild",)
            seen_pats = set()
            for _ in range(r.range(1, 3)):
                ps = [lit_or_wild(x, force_lit=(i == 0 or x != VOID and r.chance(30))) for i, x in enumerate(shape)]
                key = repr(ps)
                if key in seen_pats or all(p[0] == "pwild" or p == ("plit", None) for p in ps):
                    continue
                seen_pats.add(key)
                arms.append((("ptuple", ps), self.arm_body(ty, d, [])))
            binds, ps = [], []
            for x in shape:
                n = self.fresh("m")
                binds.append((n, x))
                ps.append(("pbind", n))
            arms.append((("ptuple", ps), self.arm_body(ty, d, binds)))
            # drop arms made redundant by an earlier identical-or-more-general arm
            arms = self.dedupe_arms(arms)
            if shape == (BOOL, VOID):
                # finite universe: the catch-all is redundant once true and false are both covered
                cov = {a[0][1][0][1] for a in arms[:-1] if a[0][1][0][0] == "plit"}
                if cov == {True, False}:
                    arms = arms[:-1]
            self.features.add("match-tuple-void")
            return ("match", ty, scrut, arms)
        if choice == 7 and self.structs:
            sn = r.choice(list(self.structs))
            fields = self.structs[sn]
            if any(ft in (INT, BOOL, STR) for _f, ft in fields):
                t = ("struct", sn)
                scrut = self.expr(t, d - 1)
                named = r.chance(50)
                order = list(range(len(fields)))
                if named:
                    r.shuffle(order)
                for _ in range(r.range(1, 2)):
                    ps = []
                    for f, ft in fields:
                        if ft == INT and r.chance(70):
                            ps.append((f, ("plit", r.range(0, 3))))
                        elif ft == BOOL and r.chance(70):
                            ps.append((f, ("plit", r.chance(50))))
                        elif ft == STR and r.chance(60):
                            ps.append((f, ("plit", r.choice(["", "a"]))))
                        else:
                            ps.append((f, ("pwild",)))
                    if all(q[0] == "pwild" for _f, q in ps):
                        continue
                    arms.append((("pstruct", sn, [ps[i] for i in order] if named else ps, named), self.arm_body(ty, d, [])))
                binds, ps = [], []
                for f, ft in fields:
                    n = self.fresh("m")
                    binds.append((n, ft))
                    ps.append((f, ("pbind", n)))
                arms.append((("pstruct", sn, [ps[i] for i in order] if named else ps, named), self.arm_body(ty, d, binds)))
                arms = self.dedupe_arms(arms)
                self.features.add("match-struct")
                return ("match", ty, scrut, arms)
            choice = 0
        if choice >= 6:
            choice = r.below(6)
        if choice == 0:
            scrut = self.expr(INT, d - 1)
            lits = r.sample(range(0, 6), r.range(1, 3))
            for l in lits:
                arms.append((("plit", l), self.arm_body(ty, d, [])))
            n = self.fresh("m")
            if r.chance(50):
                arms.append((("pbind", n), self.arm_body(ty, d, [(n, INT)])))
            else:
                arms.append((("pwild",), self.arm_body(ty, d, [])))
            self.features.add("match-int")
        elif choice == 1:
            scrut = self.expr(BOOL, d - 1)
            arms = [(("plit", True), self.arm_body(ty, d, [])), (("plit", False), self.arm_body(ty, d, []))]
            if r.chance(50):
                arms.reverse()
            self.features.add("match-bool")
        elif choice == 2 and self.enums:
            en = r.choice(list(self.enums))
            scrut = self.expr(("enum", en), d - 1)
            vs = list(self.enums[en])
            r.shuffle(vs)
            cut = r.range(1, len(vs)) if r.chance(40) else len(vs)
            for v, ts in vs[:cut]:
                binds, pats = [], []
                for t in ts:
                    if r.chance(70):
                        n = self.fresh("m")
                        binds.append((n, t))
                        pats.append(("pbind", n))
                    else:
                        pats.append(("pwild",))
                arms.append((("pvariant", v, pats), self.arm_body(ty, d, binds)))
            if cut < len(vs):
                arms.append((("pwild",), self.arm_body(ty, d, [])))
            self.features.add("match-enum")
        elif choice == 3:
            t = ("option", self.rand_scalar())
            scrut = self.expr(t, d - 1)
            n = self.fresh("m")
            arms = [(("pvariant", "some", [("pbind", n)]), self.arm_body(ty, d, [(n, t[1])])), (("pvariant", "none", []), self.arm_body(ty, d, []))]
            if r.chance(50):
                arms.reverse()
            self.features.add("match-option")
        elif choice == 4:
            t = ("result", self.rand_scalar(), STR)
            scrut = self.expr(t, d - 1)
            n, n2 = self.fresh("m"), self.fresh("m")
            arms = [(("pvariant", "ok", [("pbind", n)]), self.arm_body(ty, d, [(n, t[1])])),
                    (("pvariant", "err", [("pbind", n2)]), self.arm_body(ty, d, [(n2, STR)]))]
            self.features.add("match-result")
        else:
            t = ("tuple", (INT, BOOL))
            scrut = self.expr(t, d - 1)
            n = self.fresh("m")
            n2 = self.fresh("m")
            arms = [(("ptuple", [("plit", r.range(0, 3)), ("plit", True)]), self.arm_body(ty, d, [])),
                    (("ptuple", [("pbind", n), ("plit", False)]), self.arm_body(ty, d, [(n, INT)])),
                    (("ptuple", [("pbind", n2), ("pwild",)]), self.arm_body(ty, d, [(n2, INT)]))]
            self.features.add("match-tuple")
        return ("match", ty, scrut, arms)

    def dedupe_arms(self, arms):
        """remove arms that an earlier arm already covers (a redundant arm is a compile error)"""
        def covers(p, q):
            # does pattern p match everything q matches? (conservative, structural)
            if p[0] in ("pwild", "pbind") or p == ("plit", None):
                return True
            if q[0] in ("pwild", "pbind") or q == ("plit", None):
                return False
            if p[0] == "plit" and q[0] == "plit":
                return p[1] == q[1] and type(p[1]) == type(q[1])
            if p[0] == "ptuple" and q[0] == "ptuple":
                return all(covers(a, b) for a, b in zip(p[1], q[1]))
            if p[0] == "pstruct" and q[0] == "pstruct":
                dp, dq = dict(p[2]), dict(q[2])
                return all(covers(dp[f], dq[f]) for f in dp)
            return False
        out = []
        for pat, body in arms:
            if any(covers(p2, pat) for p2, _b in out):
                continue
            out.append((pat, body))
        return out

    def arm_body(self, ty, d, binds):
        self.push()
        for n, t in binds:
            self.declare(n, t, False)
        e = self.expr(ty, d - 1)
        self.pop()
        return e

    # -- blocks and statements
    def block(self, ty, d, nstmts):
        self.push()
        stmts = []
        for _ in range(nstmts):
            if self.fuel <= 0:
                break
            s = self.stmt(d)
            if s:
                stmts.extend(s)
        final = None
        if ty != VOID:
            final = self.expr(ty, d)
            if self.cfg["jumps_in_operands"] and self.r.chance(6):
                j = self.jump_stmt()
                if j:
                    self.features.add("jump-in-operand-block")
                    stmts.append(("expr", ("if", VOID, self.expr(BOOL, 1), ("block", VOID, [j], None), None)))
        self.pop()
        return ("block", ty, stmts, final)

    def jump_stmt(self):
        r = self.r
        opts = []
        # break/continue out of an operand position is a recorded defect zone (corpus cases
        # "jump-from-operand-*"); the random generator keeps them at statement level
        if self.loop_depth > 0 and (self.in_expr == 0 or self.cfg["jumps_in_operands"]):
            opts += [("break",), ("continue",)]
        if self.ret_ty is not None:
            rt = self.ret_ty
            if rt == VOID:
                opts.append(("return", None))
            else:
                opts.append(("return", self.expr(rt, 1)))
        return r.choice(opts) if opts else None

    def stmt(self, d):
        """-> list of statements"""
        r = self.r
        self.spend()
        k = r.below(100)
        if self.cfg.get("lambda_focus") and r.chance(12):
            a = self.assign_stmt(d)
            if a:
                self.features.add("reassign-in-lambda-program")
                return [a]
        if self.cfg.get("lambda_focus") and r.chance(30):
            fvs = [(n, t) for (n, t, m) in self.visible() if t[0] == "fn"]
            if fvs and r.chance(55):
                # call a lambda and keep / print its result
                n, t = r.choice(fvs)
                call = ("calll", t[2], ("var", t, n), [self.expr(a, d - 1) for a in t[1]])
                self.features.add("lambda-call")
                if t[2][0] == "fn":
                    self.features.add("lambda-returns-lambda")
                x = self.fresh("x")
                self.declare(x, t[2], False)
                out = [("let", x, t[2], call, False, False)]
                if printable(t[2]):
                    out.append(("print", ("var", t[2], x), True))
                return out
            t = self.rand_fn_type(2, spell=False)
            x = self.fresh("x")
            e = self.lam(t, d)
            self.declare(x, t, False)
            return [("let", x, t, e, False, spellable(t) and r.chance(50))]
        if k < 26:
            # let / var
            t = self.rand_type(2, allow_fn=True)
            mut = r.chance(60 if self.cfg.get("lambda_focus") else 35) and t[0] != "fn"
            shadowable = [v[0] for v in self.visible() if v[0][0] in "xd"]
            n = self.fresh("x") if not r.chance(12 if len(self.scopes) < 2 else 22) or not shadowable else r.choice(shadowable)
            e = self.expr(t, d - 1) if not (t[0] == "array" and r.chance(25)) else ("array", t, [])
            annotate = True if (e[0] == "array" and not e[2]) or t[0] in ("option", "result", "array", "fn", "enum") or r.chance(30) else False
            if e[0] == "variant" and e[2] not in ("option", "result"):
                annotate = r.chance(30)
            s = ("let", n, t, e, mut, annotate)
            self.declare(n, t, mut)
            if n in [v[0] for sc in self.scopes[:-1] for v in sc.vars]:
                self.features.add("shadow")
            return [s]
        if self.hosts and k >= 30 and k < 36:
            h = r.choice(self.hosts)
            e = self.hcall(h, d)
            if h["ret"] != VOID:
                n = self.fresh("x")
                self.declare(n, h["ret"], False)
                return [("let", n, h["ret"], e, False, False)]
            return [("expr", e)]
        if k < 36:
            p = self.print_stmt(d)
            return [p]
        if k < 48:
            a = self.assign_stmt(d)
            if a:
                return [a]
        if k < 58:
            # if statement
            self.features.add("if-stmt")
            cnd = self.expr(BOOL, d - 1)
            thn = self.block(VOID, d - 1, r.range(1, 3))
            after = self.probe_after_scope(self.last_popped)
            els = self.block(VOID, d - 1, r.range(1, 2)) if r.chance(50) else None
            if els is not None and not after:
                after = self.probe_after_scope(self.last_popped)
            e = ("if", VOID, cnd, thn, els)
            return [("expr", e)] + after
        if k < 66 and d >= 2:
            return self.while_stmt(d)
        if k < 76 and d >= 2:
            return self.for_stmt(d)
        if k < 82:
            j = self.jump_stmt()
            if j:
                self.features.add("jump-" + j[0])
                return [("expr", ("if", VOID, self.expr(BOOL, d - 1), ("block", VOID, [j], None), None))]
        if k < 88:
            # array mutation through an alias / push
            avs = [(n, t) for (n, t, m) in self.visible() if t[0] == "array"]
            if avs:
                n, t = r.choice(avs)
                self.features.add("push")
                out = [("expr", ("method", VOID, ("var", t, n), "push", [self.expr(t[1], d - 1)]))]
                if r.chance(30):
                    al = self.fresh("al")
                    out.insert(0, ("let", al, t, ("var", t, n), False, False))
                    self.declare(al, t, False)
                    self.features.add("alias")
                return out
        if k < 92:
            # destructuring let of a tuple
            t = ("tuple", (self.rand_scalar(), self.rand_scalar() if not r.chance(15) else VOID))
            a, b = self.fresh("d"), self.fresh("d")
            e = self.expr(t, d - 1)
            self.declare(a, t[1][0], False)
            self.declare(b, t[1][1], False)
            self.features.add("let-destructure")
            return [("letpat", ("ptuple", [("pbind", a), ("pbind", b)]), e)]
        if k < 95 and self.cfg["errors"]:
            self.features.add("panic")
            return [("expr", ("if", VOID, self.expr(BOOL, d - 1), ("block", VOID, [("panic", ("lit", STR, r.choice(["boom", "p1", ""])))], None), None))]
        if self.generics and r.chance(45):
            want = self.rand_inst() if r.chance(60) else self.rand_type(1)
            g = self.generic_call(want, lambda t: self.expr(t, d - 1), lambda: self.rand_inst(), any_ret=True)
            if g:
                self.features.add("generic-call-stmt")
                if g[1] != VOID:
                    n = self.fresh("x")
                    self.declare(n, g[1], False)
                    return [("let", n, g[1], g, False, False)]
                return [("expr", g)]
        if r.chance(25):
            m = self.method_call(None, d, any_ret=True)
            if m:
                if m[1] != VOID:
                    n = self.fresh("x")
                    self.declare(n, m[1], False)
                    return [("let", n, m[1], m, False, False)]
                return [("expr", m)]
        fs = [f for f in self.funcs if f.get("callable", True) and not f.get("method_of")]
        if fs:
            f = r.choice(fs)
            e = self.call_node(f, d)
            self.features.add("call-stmt")
            if f["ret"] != VOID:
                n = self.fresh("x")
                self.declare(n, f["ret"], False)
                return [("let", n, f["ret"], e, False, False)]
            return [("expr", e)]
        return [self.print_stmt(d)]

    def print_stmt(self, d):
        t = self.rand_printable(2) if self.r.chance(60) else self.r.choice([INT, STR, BOOL])
        self.features.add("print-" + (t if isinstance(t, str) else t[0]))
        return ("print", self.expr(t, d - 1), self.r.chance(85))

    def assign_stmt(self, d):
        r = self.r
        cands = []
        for (n, t, m) in self.visible():
            if self.in_lambda and (n, t, m) not in self.scopes_since_lambda():
                if t[0] not in ("struct", "array"):
                    continue
            if n[0] == "w":
                continue  # loop counters are never assigned by generated code (termination)
            if m and t in (INT, BOOL, STR) or (m and t[0] in ("tuple", "option")):
                if not (self.in_lambda and (n, t, m) not in self.scopes_since_lambda()):
                    cands.append(("var", n, t))
            if t[0] == "struct":
                for f, ft in self.structs[t[1]]:
                    if ft != VOID:
                        cands.append(("field", n, t, f, ft))
            if t[0] == "array" and t[1] != VOID:
                cands.append(("index", n, t))
        if not cands:
            return None
        c = r.choice(cands)
        if c[0] == "var":
            tgt = ("var", c[2], c[1])
            vt = c[2]
        elif c[0] == "field":
            tgt = ("field", c[4], ("var", c[2], c[1]), c[3])
            vt = c[4]
        else:
            arr = ("var", c[2], c[1])
            idx = ("lit", INT, r.range(0, 2)) if not r.chance(30) else self.expr(INT, 1)
            tgt = ("index", c[2][1], arr, idx)
            vt = c[2][1]
        op = "="
        if vt == INT and r.chance(50):
            op = r.choice(["+=", "-=", "*=", "/=", "%="])
            if c[0] == "index" and tgt[3][0] not in ("lit", "var"):
                ivs = self.vars_of(INT)
                tgt = ("index", c[2][1], tgt[2], ("var", INT, r.choice(ivs)) if ivs and r.chance(50) else ("lit", INT, r.range(0, 2)))
        e = self.expr(vt, d - 1)
        if op in ("/=", "%=") and not (self.cfg["errors"] and r.chance(20)):
            e = ("lit", INT, r.range(1, 5))
        self.features.add("assign-" + c[0] + ("-compound" if op != "=" else ""))
        s = ("assign", tgt, op, e)
        if c[0] == "index" and not (self.cfg["errors"] and r.chance(20)) and tgt[3][0] == "lit":
            # guard index assignment by length
            guard = ("bin", BOOL, ">", ("method", INT, tgt[2], "len", []), tgt[3])
            return ("expr", ("if", VOID, guard, ("block", VOID, [s], None), None))
        return s

    def while_stmt(self, d):
        r = self.r
        cnt = self.fresh("w")
        self.declare(cnt, INT, True)
        bound = r.range(1, 4)
        self.loop_depth += 1
        self.push()
        inc = ("assign", ("var", INT, cnt), "+=", ("lit", INT, 1))
        body = [inc]
        for _ in range(r.range(1, 3)):
            s = self.stmt(d - 1)
            if s:
                body.extend(s)
        after = self.probe_after_scope(self.pop())
        self.loop_depth -= 1
        cond = ("bin", BOOL, "<", ("var", INT, cnt), ("lit", INT, bound))
        if r.chance(30):
            cond = ("bin", BOOL, "and", cond, self.expr(BOOL, 1))
        self.features.add("while")
        return [("let", cnt, INT, ("lit", INT, 0), True, False), ("while", cond, body)] + after

    def for_stmt(self, d):
        r = self.r
        k = r.below(3)
        pre = None
        if k == 2:
            avs = [(n_, t) for (n_, t, m) in self.visible() if t[0] == "array" and t[1] != VOID]
            et = self.rand_scalar()
            if avs and r.chance(60):
                an, at = r.choice(avs)
                pre = (("var", at, an), at[1])
            else:
                pre = (("array", ("array", et), [self.expr(et, d - 2) for _ in range(r.range(1, 3))]), et)
        self.loop_depth += 1
        self.push()
        if k == 0:
            n = self.fresh("i")
            it = ("lit", INT, r.range(0, 4))
            kind, pat = "int", ("pbind", n)
            self.declare(n, INT, False)
            itexpr = it
        elif k == 1:
            n = self.fresh("i")
            lo, hi = ("lit", INT, r.range(-1, 2)), ("lit", INT, r.range(0, 4))
            kind, pat = "range", ("pbind", n)
            self.declare(n, INT, False)
            itexpr = ("tuple", ("tuple", (INT, INT)), [lo, hi])
        else:
            itexpr, et = pre
            kind = "array"
            if et[0] == "tuple" and len(et[1]) == 2 and r.chance(60):
                a, b = self.fresh("i"), self.fresh("i")
                pat = ("ptuple", [("pbind", a), ("pbind", b)])
                self.declare(a, et[1][0], False)
                self.declare(b, et[1][1], False)
                self.features.add("for-destructure")
            else:
                n = self.fresh("i")
                pat = ("pbind", n)
                self.declare(n, et, False)
        body = []
        for _ in range(r.range(1, 3)):
            s = self.stmt(d - 1)
            if s:
                body.extend(s)
        after = self.probe_after_scope(self.pop())
        self.loop_depth -= 1
        self.features.add("for-" + kind)
        return [("for", pat, kind, itexpr, body)] + after

    # -- functions
    # -- generic functions: parametric bodies, instantiated at the call sites -------------------
    def rand_inst(self):
        """a type to instantiate a type variable with (void included)"""
        if self.r.chance(20):
            return VOID
        return self.rand_type(1)

    def generic_call(self, ty, argf, freef, any_ret=False, avoid=None):
        """call of a generic function whose result type unifies with ty (any_ret: bind the result's
        type variables with freef() instead); argf(type) makes an argument"""
        r = self.r
        cands = []
        for f in self.generics:
            if f is avoid:
                break   # a generic function only calls the ones declared before it: no recursion
            b = {}
            if any_ret or unify(f["ret"], ty, b):
                cands.append((f, b))
        if not cands:
            return None
        f, b = r.choice(cands)
        for tv in f["tvars"]:
            if tv not in b:
                for _ in range(10):
                    t = freef()
                    if tv not in f["show"] or printable(t):
                        break
                else:
                    t = INT
                b[tv] = t
        for tv in f["show"]:
            if not printable(b[tv]):
                return None
        self.features.add("generic-call")
        if any(t == VOID for t in b.values()):
            self.features.add("generic-at-void")
        return ("call", tsubst(f["ret"], b), f["name"], [argf(tsubst(t, b)) for _, t in f["params"]])

    def gen_generic_func(self, idx):
        r = self.r
        T, U = ("tvar", "T"), ("tvar", "U")
        two = r.chance(45)
        show = {"T"} if r.chance(30) else set()
        params = [(self.fresh("gx"), T)]
        if two:
            params.append((self.fresh("gy"), U))
        extra = r.below(7)
        if extra == 0:
            params.append((self.fresh("ga"), ("array", T)))
        elif extra == 1:
            params.append((self.fresh("go"), ("option", T)))
        elif extra == 2:
            params.append((self.fresh("gt"), ("tuple", (T, INT))))
        elif extra == 3 and self.cfg["lambdas"]:
            params.append((self.fresh("gf"), ("fn", (INT,), T)))
        params.append((self.fresh("gn"), INT))
        r.shuffle(params)
        if show:
            # the constrained occurrence is the bare parameter, and it comes first
            params.sort(key=lambda p: 0 if p[1] == T else 1)
        rets = [T, T, ("tuple", (T, INT)), ("array", T), ("option", T), INT]
        if two:
            rets += [U, ("tuple", (U, T))]
        if show:
            rets += [STR, STR]
        ret = r.choice(rets)
        f = {"name": "gen%d" % idx, "params": params, "ret": ret, "tvars": ["T", "U"] if two else ["T"], "show": show, "callable": True}
        # `T ToString` is written where T first occurs in the parameter list
        anns, seen = {}, set()
        for n, t in params:
            a = ann(t)
            for tv in sorted(show - seen):
                if tvars_in(t) & {tv}:
                    a = a.replace(tv, tv + " ToString", 1)
                    seen.add(tv)
            anns[n] = a
        f["param_anns"] = anns
        gb = GenericBody(self, f)
        env = list(params)
        stmts = []
        for _ in range(r.range(0, 2)):
            k = r.below(3)
            if k == 0:
                stmts.append(("print", gb.gint(1, env), False))
            else:
                tys = [t for _, t in params if t != INT and (t[0] != "fn")]
                t = r.choice(tys)
                n = self.fresh("gl")
                stmts.append(("let", n, t, gb.gx(t, 2, env), False, False))
                env.append((n, t))
        f["body"] = ("block", ret, stmts, gb.gx(ret, 3, env))
        self.features.add("generic-func")
        self.generics.append(f)

    def default_expr(self, ty):
        """a closed expression (it is evaluated by the caller: no parameter, no local is in scope)"""
        saved = (self.scopes, self.ret_ty, self.loop_depth, self.in_lambda, self.in_expr, self.fuel, getattr(self, "lambda_base", 0))
        self.scopes = [Scope()]
        self.ret_ty = None
        self.loop_depth = 0
        self.in_lambda = 0
        self.in_expr = 0
        self.lambda_base = 0
        self.fuel = 6
        try:
            return self.expr(ty, self.r.range(0, 2))
        finally:
            self.scopes, self.ret_ty, self.loop_depth, self.in_lambda, self.in_expr, self.fuel, self.lambda_base = saved

    def call_node(self, f, d):
        """call of an ordinary function: positional, or a positional prefix followed by named
        arguments in any order, arguments with defaults left off"""
        r = self.r
        params = f["params"]
        dfl = f.get("defaults") or {}
        full = [self.expr(t, d - 1) for _, t in params]
        if not params or (not dfl and not r.chance(12)):
            return ("call", f["ret"], f["name"], full)
        n = len(params)
        p = r.range(0, n)
        args, names = [full[i] for i in range(p)], [None] * p
        chosen = [i for i in range(p, n) if i not in dfl or r.chance(45)]
        if r.chance(50):
            r.shuffle(chosen)
        for i in chosen:
            args.append(full[i])
            names.append(params[i][0])
        if len(args) < n:
            self.features.add("call-defaults-left-off")
        if any(names):
            self.features.add("call-named")
        return ("call", f["ret"], f["name"], args, tuple(names))

    def method_call(self, ty, d, any_ret=False):
        """`receiver.method(args)` on a user struct"""
        r = self.r
        ms = [f for f in self.funcs if f.get("method_of") and f.get("callable", True) and (any_ret or f["ret"] == ty)]
        if not ms:
            return None
        f = r.choice(ms)
        recv = self.expr(("struct", f["method_of"]), d - 1)
        c = self.call_node(dict(f, params=f["params"][1:], defaults={i - 1: v for i, v in (f.get("defaults") or {}).items()}), d)
        self.features.add("method-call")
        return ("mcall", f["ret"], recv, f["name"], c[3], c[4] if len(c) > 4 else None)

    def gen_func(self, idx, method_of=None):
        r = self.r
        name = ("fun%d" if method_of is None else "mem%d") % idx
        nparams = r.range(0, 3) if method_of is None else r.range(0, 2)
        params = [(self.fresh("a"), VOID if r.chance(7) else self.rand_type(1, allow_fn=r.chance(20))) for _ in range(nparams)]
        if method_of is not None:
            params.insert(0, ("self", ("struct", method_of)))
            self.features.add("method")
        defaults = {}
        if self.cfg.get("defaults", True):
            for i, (pn, pt) in enumerate(params):
                if r.chance(28) and pn != "self":
                    defaults[i] = self.default_expr(pt)
                    self.features.add("default-" + ("literal" if defaults[i][0] == "lit" else "expression"))
        k = r.below(10)
        if k < 6:
            ret = self.rand_type(1)
        elif k < 7:
            ret = VOID
        elif k < 9 and self.cfg["trymode"]:
            ret = r.choice([("option", INT), ("result", INT, STR), ("option", STR), ("result", BOOL, STR)])
        else:
            ret = self.rand_type(2)
        saved_scopes = self.scopes
        self.scopes = [Scope()]
        self.push()
        for n, t in params:
            self.declare(n, t, False)
        self.ret_ty = ret
        self.loop_depth = 0
        saved_fuel = self.fuel
        self.fuel = max(8, self.cfg["size"] // 3)
        body = self.block(ret, min(3, self.cfg["depth"]), r.range(1, 3))
        self.fuel = saved_fuel
        self.ret_ty = None
        self.scopes = saved_scopes
        f = {"name": name, "params": params, "ret": ret, "body": body, "defaults": defaults}
        if method_of is not None:
            f["method_of"] = method_of
        if r.chance(40):
            # effectful: print a marker first so that evaluation order is observable
            body[2].insert(0, ("print", ("lit", STR, "<%s>" % name), False))
        self.funcs.append(f)

    def gen(self):
        r = self.r
        self.setup_types()
        if self.cfg["hosts"]:
            self.setup_hosts()
        self.scopes = [Scope()]
        self.global_vars = []
        main = []
        # a few global lets first so that functions can refer to them
        for _ in range(r.range(0, 2)):
            t = self.rand_type(1)
            n = self.fresh("g")
            e = self.expr(t, 1)
            if e is None:
                continue
            main.append(("let", n, t, e, False, True))
            self.declare(n, t, False)
        for i in range(r.range(0, 3)):
            self.gen_func(i)
        if self.cfg.get("methods", True) and self.structs:
            for i, sname in enumerate(sorted(self.structs)):
                if r.chance(45):
                    self.gen_func(i, method_of=sname)
        if self.cfg["generics"] and r.chance(55):
            for i in range(r.range(1, 3)):
                self.gen_generic_func(i)
        self.fuel = self.cfg["size"]
        nst = r.range(3, 9)
        for _ in range(nst):
            if self.fuel <= 0:
                break
            s = self.stmt(self.cfg["depth"])
            if s:
                main.extend(s)
        # final statement: expression of scalar type half of the time
        if r.chance(50):
            t = r.choice([INT, BOOL, STR])
            main.append(("expr", self.expr(t, 2)))
            self.final_ty = t
        else:
            main.append(self.print_stmt(2))
            self.final_ty = None
        decls_last = self.cfg.get("decls_last", True) and r.chance(25)
        if decls_last:
            self.features.add("declarations-after-main")
        return {"decls_last": decls_last, "structs": self.structs, "enums": self.enums, "funcs": self.funcs + self.generics, "main": main,
                "final_ty": self.final_ty, "features": sorted(self.features), "hosts": self.hosts}


def tvars_in(t):
    if isinstance(t, str):
        return set()
    if t[0] == "tvar":
        return {t[1]}
    out = set()
    for x in t[1:]:
        if isinstance(x, tuple) and x and not isinstance(x[0], tuple) and isinstance(x[0], str) and x[0] in ("tvar", "tuple", "array", "option", "result", "fn", "struct", "enum"):
            out |= tvars_in(x)
        elif isinstance(x, tuple):
            for y in x:
                out |= tvars_in(y)
    return out


def unify(pat, ty, b):
    """match a type pattern (with type variables) against a concrete type, extending b"""
    if isinstance(pat, tuple) and pat[0] == "tvar":
        if pat[1] in b:
            return b[pat[1]] == ty
        b[pat[1]] = ty
        return True
    if isinstance(pat, str) or isinstance(ty, str):
        return pat == ty
    if pat[0] != ty[0]:
        return False
    k = pat[0]
    if k == "tuple":
        return len(pat[1]) == len(ty[1]) and all(unify(p, t, b) for p, t in zip(pat[1], ty[1]))
    if k in ("array", "option"):
        return unify(pat[1], ty[1], b)
    if k == "fn":
        return len(pat[1]) == len(ty[1]) and all(unify(p, t, b) for p, t in zip(pat[1], ty[1])) and unify(pat[2], ty[2], b)
    return pat == ty


def tsubst(pat, b):
    if isinstance(pat, str):
        return pat
    k = pat[0]
    if k == "tvar":
        return b[pat[1]]
    if k == "tuple":
        return ("tuple", tuple(tsubst(x, b) for x in pat[1]))
    if k in ("array", "option"):
        return (k, tsubst(pat[1], b))
    if k == "fn":
        return ("fn", tuple(tsubst(x, b) for x in pat[1]), tsubst(pat[2], b))
    return pat


class GenericBody:
    """expressions of a generic function's body: values of a type variable are only moved around
    (variables, branches, blocks, lambdas and nested lambdas that capture them, arrays, options,
    tuples, calls of other generic functions); ints are computed"""

    def __init__(self, gen, f):
        self.g = gen
        self.r = gen.r
        self.f = f

    def vars_of(self, ty, env):
        return [n for n, t in env if t == ty]

    def gint(self, d, env):
        r = self.r
        vs = self.vars_of(INT, env)
        arrs = [(n, t) for n, t in env if not isinstance(t, str) and t[0] == "array"]
        k = r.below(10)
        if k < 3 or not vs:
            return ("lit", INT, r.range(0, 9))
        if k < 6:
            return ("var", INT, r.choice(vs))
        if k < 8 and arrs:
            n, t = r.choice(arrs)
            return ("method", INT, ("var", t, n), "len", [])
        return ("bin", INT, r.choice(["+", "-", "*"]), ("var", INT, r.choice(vs)), ("lit", INT, r.range(1, 3)))

    def gbool(self, d, env):
        return ("bin", BOOL, self.r.choice([">", "<", "=="]), self.gint(d, env), ("lit", INT, self.r.range(0, 4)))

    def gx(self, ty, d, env):
        r = self.r
        g = self.g
        if ty == INT:
            return self.gint(d, env)
        if ty == BOOL:
            return self.gbool(d, env)
        if ty == VOID:
            return ("lit", VOID, None)
        if ty == STR:
            tv = ("tvar", sorted(self.f["show"])[0])
            g.features.add("generic-tostring")
            return ("bin", STR, "..", ("lit", STR, "<"), ("bin", STR, "..", self.gx(tv, d - 1, env), ("lit", STR, ">")))
        k = ty[0]
        vs = self.vars_of(ty, env)
        if k == "tuple":
            if vs and r.chance(40):
                return ("var", ty, r.choice(vs))
            return ("tuple", ty, [self.gx(t, d - 1, env) for t in ty[1]])
        if k == "array":
            if vs and r.chance(50):
                return ("var", ty, r.choice(vs))
            return ("array", ty, [self.gx(ty[1], d - 1, env) for _ in range(r.range(1, 3))])
        if k == "option":
            if vs and r.chance(50):
                return ("var", ty, r.choice(vs))
            n = g.fresh("t")
            if r.chance(25):
                v = ("variant", ty, "option", "none", [])
            else:
                v = ("variant", ty, "option", "some", [self.gx(ty[1], d - 1, env)])
            return ("block", ty, [("let", n, ty, v, False, True)], ("var", ty, n))
        if k == "fn":
            if vs:
                return ("var", ty, r.choice(vs))
            ps = [(g.fresh("p"), t) for t in ty[1]]
            return ("lam", ty, ps, self.gx(ty[2], d - 1, env + ps))
        assert k == "tvar", ty
        return self.gtv(ty, d, env)

    def gtv(self, ty, d, env):
        r = self.r
        g = self.g
        vs = self.vars_of(ty, env)
        if d <= 0:
            return ("var", ty, r.choice(vs))
        k = r.below(100)
        if k < 18:
            return ("var", ty, r.choice(vs))
        if k < 28:
            return ("if", ty, self.gbool(d - 1, env), ("block", ty, [], self.gtv(ty, d - 1, env)), ("block", ty, [], self.gtv(ty, d - 1, env)))
        if k < 38:
            n = g.fresh("gl")
            return ("block", ty, [("let", n, ty, self.gtv(ty, d - 1, env), False, False)], self.gtv(ty, d - 1, env + [(n, ty)]))
        if k < 56 and g.cfg["lambdas"]:
            # a lambda (its own type need not mention the type variable) captures generic values
            n = g.fresh("gf")
            if r.chance(50):
                fty = ("fn", (), ty)
                lam = ("lam", fty, [], self.lam_body(ty, d - 1, env))
                g.features.add("generic-lambda0")
                return ("block", ty, [("let", n, fty, lam, False, False)], ("calll", ty, ("var", fty, n), []))
            kk = g.fresh("p")
            fty = ("fn", (INT,), ty)
            lam = ("lam", fty, [(kk, INT)], self.lam_body(ty, d - 1, env + [(kk, INT)]))
            g.features.add("generic-lambda1")
            return ("block", ty, [("let", n, fty, lam, False, False)], ("calll", ty, ("var", fty, n), [self.gint(d - 1, env)]))
        if k < 64:
            avs = [(n, t) for n, t in env if t == ("array", ty)]
            if avs:
                n, t = r.choice(avs)
                arr = ("var", t, n)
                kk = r.range(0, 2)
                guard = ("bin", BOOL, ">", ("method", INT, arr, "len", []), ("lit", INT, kk))
                g.features.add("generic-index")
                return ("if", ty, guard, ("block", ty, [], ("index", ty, arr, ("lit", INT, kk))), ("block", ty, [], self.gtv(ty, d - 1, env)))
        if k < 72:
            ovs = [(n, t) for n, t in env if t == ("option", ty)]
            if ovs:
                n, t = r.choice(ovs)
                z = g.fresh("gz")
                g.features.add("generic-match-option")
                return ("match", ty, ("var", t, n), [(("pvariant", "some", [("pbind", z)]), self.gtv(ty, d - 1, env + [(z, ty)])),
                                                      (("pvariant", "none", []), self.gtv(ty, d - 1, env))])
        if k < 80:
            tvs = [(n, t) for n, t in env if t == ("tuple", (ty, INT))]
            if tvs:
                n, t = r.choice(tvs)
                a, b = g.fresh("ga"), g.fresh("gb")
                g.features.add("generic-destructure")
                return ("block", ty, [("letpat", ("ptuple", [("pbind", a), ("pbind", b)]), ("var", t, n))], self.gtv(ty, d - 1, env + [(a, ty), (b, INT)]))
        if k < 86:
            fvs = [(n, t) for n, t in env if t == ("fn", (INT,), ty)]
            if fvs:
                n, t = r.choice(fvs)
                g.features.add("generic-call-fn-param")
                return ("calll", ty, ("var", t, n), [self.gint(d - 1, env)])
        if k < 96:
            # a generic function calls another one, at its own type variables, at int or at void
            inside = [("tvar", v) for v in self.f["tvars"] if self.vars_of(("tvar", v), env)] + [INT, VOID]
            c = g.generic_call(ty, lambda t: self.gx(t, d - 1, env), lambda: r.choice(inside), avoid=self.f)
            if c:
                g.features.add("generic-calls-generic")
                return c
        return ("var", ty, r.choice(vs))

    def lam_body(self, ty, d, env):
        r = self.r
        if r.chance(35):
            # a local of the type variable's type inside the lambda, then the result
            n = self.g.fresh("gl")
            return ("block", ty, [("let", n, ty, self.gtv(ty, d, env), False, False)], self.gtv(ty, d, env + [(n, ty)]))
        return self.gtv(ty, d, env)


def gen_program(rng, cfg=None):
    g = Gen(rng, cfg)
    return g.gen()


# ------------------------------------------------------------------------------------------
# shrinking (AST-level delta debugging)

def _is_expr(n):
    return isinstance(n, tuple) and n and isinstance(n[0], str) and n[0] in (
        "lit", "var", "bin", "neg", "not", "if", "block", "match", "call", "mcall", "calll", "lam", "tuple", "array", "struct",
        "variant", "field", "index", "method", "try", "unwrap", "str", "hcall")


def _walk(node, path, out):
    """collect (path, node) for every tuple/list node"""
    if isinstance(node, (tuple, list)):
        out.append((path, node))
        for i, ch in enumerate(node):
            _walk(ch, path + (i,), out)
    elif isinstance(node, dict):
        for k, ch in node.items():
            _walk(ch, path + (k,), out)


def _replace(node, path, new):
    if not path:
        return new
    k = path[0]
    if isinstance(node, dict):
        d = dict(node)
        d[k] = _replace(node[k], path[1:], new)
        return d
    lst = list(node)
    lst[k] = _replace(node[k], path[1:], new)
    return tuple(lst) if isinstance(node, tuple) else lst


def _delete(node, path):
    """delete element path[-1] from the list at path[:-1]"""
    if len(path) == 1:
        lst = list(node)
        del lst[path[0]]
        return tuple(lst) if isinstance(node, tuple) else lst
    k = path[0]
    if isinstance(node, dict):
        d = dict(node)
        d[k] = _delete(node[k], path[1:])
        return d
    lst = list(node)
    lst[k] = _delete(node[k], path[1:])
    return tuple(lst) if isinstance(node, tuple) else lst


STMT_TAGS = ("let", "letpat", "assign", "expr", "print", "while", "for", "break", "continue", "return", "panic")


def _simple_of(ty):
    if ty == INT:
        return [("lit", INT, 0), ("lit", INT, 1)]
    if ty == BOOL:
        return [("lit", BOOL, True), ("lit", BOOL, False)]
    if ty == STR:
        return [("lit", STR, ""), ("lit", STR, "a")]
    if ty == VOID:
        return [("lit", VOID, None)]
    return []


def candidates(prog):
    """smaller variants of prog, biggest cuts first"""
    out = []
    core = {"funcs": prog["funcs"], "main": prog["main"]}
    nodes = []
    _walk(core, (), nodes)
    # 1. delete statements (elements of lists whose items are statements) and functions
    for path, node in nodes:
        if isinstance(node, list):
            for i, ch in enumerate(node):
                if (isinstance(ch, tuple) and ch and ch[0] in STMT_TAGS) or isinstance(ch, dict):
                    out.append(_delete(core, path + (i,)))
    # 2. hoist: replace an if/block/match expression by one of its parts; replace expr by a literal
    for path, node in nodes:
        if not _is_expr(node) or not path:
            continue
        k = node[0]
        ty = node[1]
        if k == "if":
            for br in (node[3], node[4]):
                if br is not None:
                    out.append(_replace(core, path, br))
        if k == "block" and not node[2] and node[3] is not None:
            out.append(_replace(core, path, node[3]))
        if k == "match":
            for pat, body in node[3]:
                if not _binds(pat):
                    out.append(_replace(core, path, body))
        if k == "bin" and node[2] not in ("and", "or", "..") and node[3][1] == ty:
            out.append(_replace(core, path, node[3]))
            out.append(_replace(core, path, node[4]))
        if k not in ("lit",):
            for s in _simple_of(ty):
                out.append(_replace(core, path, s))
    res = []
    for c in out:
        q = dict(prog)
        q["funcs"] = c["funcs"]
        q["main"] = c["main"]
        res.append(q)
    # drop type declarations one at a time (fails to compile if still used: harmless)
    for kind in ("structs", "enums"):
        for name in prog[kind]:
            q = dict(prog)
            q[kind] = {k: v for k, v in prog[kind].items() if k != name}
            res.append(q)
    return res


def _binds(p):
    if p[0] == "pbind":
        return True
    if p[0] in ("ptuple", "por"):
        return any(_binds(q) for q in p[1])
    if p[0] == "pvariant":
        return any(_binds(q) for q in p[2])
    if p[0] == "pstruct":
        return any(_binds(q) for _f, q in p[2])
    return False


def size_of(prog):
    nodes = []
    _walk({"funcs": prog["funcs"], "main": prog["main"]}, (), nodes)
    return len(nodes) + 3 * (len(prog["structs"]) + len(prog["enums"]))


def shrink(prog, fails, max_rounds=40, batch=400):
    """fails(list of progs) -> list of bool. Greedy: take the first (largest-cut) candidate
    that still fails, repeat."""
    cur = prog
    for _ in range(max_rounds):
        cands = candidates(cur)
        cs = sorted(cands, key=size_of)[:batch]
        if not cs:
            break
        ok = fails(cs)
        nxt = None
        for c, f in zip(cs, ok):
            if f and size_of(c) < size_of(cur):
                nxt = c
                break
        if nxt is None:
            break
        cur = nxt
    return cur
