"""C15 Integer arithmetic is exact or fails with the documented error.

Oracle: Python big-integer reference. Workload: boundary grid x grid x operators x operand forms
(literal/variable, compound assignment on var / array element / struct field) + seeded random
64-bit pairs. Every case runs in its own runtime through the case dispatcher."""
from checks.common import Case, run_cases

LEVEL = "exploration"
MIN, MAX = -(1 << 63), (1 << 63) - 1


def grid():
    g = {0, 1, -1, 2, -2, 3, -3, 7, -7, 10, MIN, MIN + 1, MAX, MAX - 1, 3037000499, 3037000500, -3037000499,
         -3037000500, 10 ** 18, -(10 ** 18), 4294967298, 4294967296 + 3, 64, 63, 62}
    for k in (15, 16, 31, 32, 33, 62):
        for d in (-1, 0, 1):
            g.add((1 << k) + d)
            g.add(-((1 << k) + d))
    g.add((1 << 63) - 1)
    return sorted(x for x in g if MIN <= x <= MAX)


def lit(x):
    return "(%d)" % x if x < 0 else "%d" % x


def reference(op, a, b):
    """-> ("out", text) or ("err", kind) or None when the statement leaves it unspecified."""
    if op == "+":
        r = a + b
    elif op == "-":
        r = a - b
    elif op == "*":
        r = a * b
    elif op == "/":
        if b == 0:
            return ("err", "divzero")
        q = abs(a) // abs(b)
        r = q if (a < 0) == (b < 0) else -q
    elif op == "%":
        if b == 0:
            return ("err", "divzero")
        r = a % abs(b)
    elif op == "^":
        if b < 0:
            return None
        if a in (0, 1, -1) or b < 200:
            r = a ** b
        else:
            r = 1 << 100  # certainly out of range
    elif op == "neg":
        r = -a
    else:
        raise ValueError(op)
    if MIN <= r <= MAX:
        return ("out", "%d\n" % r)
    return ("err", "overflow")


FORMS_Q = ["ll", "vv", "vl", "asg"]
FORMS_ALL = ["ll", "vv", "vl", "lv", "asg", "asgl", "elem", "field", "fn", "fieldl", "elemv", "nested"]
ASG = {"+": "+=", "-": "-=", "*": "*=", "/": "/=", "%": "%="}
DECLS = "type VerifBox = {\n  v: int\n}\nfn verif_id(x: int) -> int = x\n"


def body(op, a, b, form):
    if op == "neg":
        if form == "ll":
            return "println(-%s)" % lit(a)
        return "let a = verif_id(%s)\nprintln(-a)" % lit(a)
    if form == "ll":
        return "println(%s %s %s)" % (lit(a), op, lit(b))
    if form == "vv":
        return "let a = verif_id(%s)\nlet b = verif_id(%s)\nprintln(a %s b)" % (lit(a), lit(b), op)
    if form == "vl":
        return "let a = verif_id(%s)\nprintln(a %s %s)" % (lit(a), op, lit(b))
    if form == "lv":
        return "let b = verif_id(%s)\nprintln(%s %s b)" % (lit(b), lit(a), op)
    if form == "fn":
        return "println(verif_id(%s) %s verif_id(%s))" % (lit(a), op, lit(b))
    if op not in ASG:
        return None
    if form == "asg":
        return "var a = verif_id(%s)\nlet b = verif_id(%s)\na %s b\nprintln(a)" % (lit(a), lit(b), ASG[op])
    if form == "asgl":
        return "var a = %s\na %s %s\nprintln(a)" % (lit(a), ASG[op], lit(b))
    if form == "elem":
        return "let xs = [0, %s]\nxs[1] %s %s\nprintln(xs[1])" % (lit(a), ASG[op], lit(b))
    if form == "field":
        return "let s = VerifBox(%s)\nlet b = verif_id(%s)\ns.v %s b\nprintln(s.v)" % (lit(a), lit(b), ASG[op])
    if form == "fieldl":
        return "let s = VerifBox(%s)\ns.v %s %s\nprintln(s.v)" % (lit(a), ASG[op], lit(b))
    if form == "elemv":
        return "let xs = [0, verif_id(%s)]\nlet b = verif_id(%s)\nxs[1] %s b\nprintln(xs[1])" % (lit(a), lit(b), ASG[op])
    if form == "nested":
        return "let ss = [VerifBox(%s)]\nlet b = verif_id(%s)\nss[0].v %s b\nprintln(ss[0].v)" % (lit(a), lit(b), ASG[op])
    return None


def sig_of(c):
    return "C15 " + c.key


def gen_cases(ctx):
    g = grid()
    # every operand form in both tiers: quick gives each grid point 2 of the forms (rotating), so each
    # form still sees 2/9 of the grid
    forms = FORMS_ALL
    pairs = [(a, b) for a in g for b in g]
    nrand = 1500 if ctx.quick else 40000
    r = ctx.rng.fork("pairs")
    for _ in range(nrand):
        m = r.below(4)
        def draw():
            k = r.below(5)
            if k == 0:
                return r.next() - (1 << 63)
            if k == 1:
                return r.range(-70, 70)
            if k == 2:
                return (1 << r.range(1, 62)) + r.range(-2, 2)
            if k == 3:
                return -((1 << r.range(1, 62)) + r.range(-2, 2))
            return r.range(-(1 << 33), 1 << 33)
        pairs.append((draw(), draw()))
    cases = []
    fr = ctx.rng.fork("forms")
    for n, (a, b) in enumerate(pairs):
        from_grid = n < len(g) * len(g)
        for op in ("+", "-", "*", "/", "%", "^"):
            exp = reference(op, a, b)
            if exp is None:
                continue
            if ctx.quick and from_grid:
                # quick: every grid point in 2 of the forms (rotating), thorough: all forms
                fs = [forms[(n + i) % len(forms)] for i in range(2)]
            elif from_grid:
                fs = forms
            else:
                fs = [fr.choice(forms)]
            for f in fs:
                bd = body(op, a, b, f)
                if bd is None:
                    continue
                cases.append(Case("op=%s form=%s a=%d b=%d" % (op, f, a, b), bd, exp, DECLS))
    for a in g:
        for f in ("ll", "vv"):
            cases.append(Case("op=neg form=%s a=%d" % (f, a), body("neg", a, 0, f), reference("neg", a, 0), DECLS))
    return cases


def run(ctx):
    cases = gen_cases(ctx)
    nruns, observed, failures = run_cases(ctx, "c15", cases, sig_of, per_prog=250)
    nerr = sum(1 for c in cases if c.expect[0] == "err")
    ctx.coverage(
        evaluations=nruns,
        distinct_nontrivial=len(observed),
        rule="one case = (operator, operand form, a, b); distinct = distinct case keys whose run was observed "
             "(result or runtime error) and compared with the big-integer reference; grid of %d boundary values "
             "squared x 6 operators x forms, plus seeded random pairs" % len(grid()),
        samples=[{"case": c.key, "program": c.body, "expected": c.expect} for c in (cases[0], cases[len(cases) // 2], cases[-1])],
        expected_error_cases=nerr,
        failures=[f for f in failures[:20]],
        exhaustive=False,
    )
    ctx.need(len(observed) >= 0.98 * len({c.key for c in cases}), "only %d of %d cases observed" % (len(observed), len(cases)))


def replay(ctx, rep):
    job = rep["job"]
    res = ctx.ex.run_alone(job)
    print(__import__("json").dumps(res)[:2000])
