"""Hostile source texts for the front end (C04, C34): prefixes, token- and character-level
mutations of a corpus of valid programs, and grammar-based garbage."""
import glob
import os
import re

import vlib
from checks import progen, proglib, reprint

HOSTILE_CHARS = ['"', "'", "\\", "{", "}", "(", ")", "[", "]", "/*", "*/", "//", "#!", "#", "\r", "\r\n", "\0", "\t", "\n", " ", "é", "€", "🙂",
                 "\u0301", "\u200b", "\ufeff", "日", '"""', "'''", "\\x", "\\xZZ", "\\u", ".", "..", "...", "-", "->", "=>", "|", "&", "@", "$", "`", "~",
                 "0", "9", "_", "1e", "1.", ".5", "0x", "99999999999999999999", "1" * 400, "<", ">", ",", ";", ":", "::", "=", "==", "!", "?", "^", "%"]
KEYWORDS = ["let", "var", "fn", "type", "match", "if", "else", "while", "for", "in", "break", "continue", "return", "use", "as", "except",
            "interface", "implement", "extend", "task", "and", "or", "not", "true", "false", "nil", "self", "Self", "outputtype", "#host", "#foreign",
            "int", "float", "bool", "string", "void", "array", "option", "result", "channel", "some", "none", "ok", "err", "T", "T1", "U"]
PUNCT = ["(", ")", "{", "}", "[", "]", ",", ";", ":", ".", "..", "->", "=", "==", "!=", "<", "<=", ">", ">=", "+", "-", "*", "/", "%", "^", "+=", "-=",
         "|", "?", "!", "_", "\n", "\n", " ", "<", ">"]
ATOMS = ["x", "y", "foo", "Bar", "xs", "0", "1", "42", "3.5", '"s"', "'t'", '"""m"""', "9223372036854775808", "-1", "1_000", "0.0", "1e9", "nil"]

_CORPUS = None


def corpus():
    """list of (name, text): repository programs, test sources, prelude and core modules"""
    global _CORPUS
    if _CORPUS is not None:
        return _CORPUS
    out = []
    for f in sorted(glob.glob("/repo/examples/*.abra")) + sorted(glob.glob("/repo/module_tests/*.abra")) + \
            sorted(glob.glob("/repo/modules/*.abra")) + sorted(glob.glob("/repo/modules/core/*.abra")):
        try:
            out.append((os.path.relpath(f, "/repo"), open(f, encoding="utf-8").read()))
        except Exception:
            pass
    for f in sorted(glob.glob("/repo/abra_core/tests/integration/*.rs")):
        txt = open(f, encoding="utf-8").read()
        for i, m in enumerate(re.finditer(r'r#"(.*?)"#', txt, re.S)):
            out.append(("%s#%d" % (os.path.basename(f), i), m.group(1)))
    for f in sorted(glob.glob("/repo/book/src/language_reference/*.md")):
        txt = open(f, encoding="utf-8").read()
        for i, m in enumerate(re.finditer(r"```\n(.*?)```", txt, re.S)):
            out.append(("%s#%d" % (os.path.basename(f), i), m.group(1)))
    _CORPUS = out
    return out


def generated(seed, n):
    items, _ = proglib.gen_batch(seed, n, {"size": 40, "hosts": True, "lambda_focus": False}, keep_unsupported=True)
    return [("gen%d" % idx, src) for (idx, prog, src, ref) in items]


def prefixes(text, r, limit):
    """char-boundary prefixes: all of them when the text is short enough, else a sample that always
    contains the positions just after quotes, backslashes, braces and comment openers"""
    n = len(text)
    if n + 1 <= limit:
        return [text[:i] for i in range(n + 1)]
    hot = {0, n}
    for m in re.finditer(r'["\'\\{}()\[\]]|/\*|\*/|//|"""|->|\.\.', text):
        hot.add(m.end())
        hot.add(m.start())
    hot = sorted(hot)
    if len(hot) > limit // 2:
        hot = r.sample(hot, limit // 2)
    rest = r.sample(range(n + 1), min(n + 1, limit - len(hot)))
    return [text[:i] for i in sorted(set(hot) | set(rest))]


def mutate_chars(text, r):
    k = r.range(1, 4)
    s = text
    for _ in range(k):
        if not s:
            s = r.choice(HOSTILE_CHARS)
            continue
        i = r.below(len(s) + 1)
        op = r.below(5)
        if op == 0:
            s = s[:i] + r.choice(HOSTILE_CHARS) + s[i:]
        elif op == 1:
            j = min(len(s), i + r.range(1, 6))
            s = s[:i] + s[j:]
        elif op == 2:
            j = min(len(s), i + 1)
            s = s[:i] + r.choice(HOSTILE_CHARS) + s[j:]
        elif op == 3:
            j = min(len(s), i + r.range(1, 30))
            s = s[:i] + s[i:j] + s[i:j] + s[j:]
        else:
            j = min(len(s), i + r.range(1, 40))
            s = s[:j] + s[i:j][::-1] + s[j:]
    return s


def mutate_tokens(text, r):
    try:
        toks = [t for (_k, t) in reprint.tokens(text)]
    except AssertionError:
        return mutate_chars(text, r)
    if not toks:
        return text
    for _ in range(r.range(1, 3)):
        i = r.below(len(toks))
        op = r.below(6)
        if op == 0:
            del toks[i]
        elif op == 1:
            toks.insert(i, toks[i])
        elif op == 2 and len(toks) > 1:
            j = r.below(len(toks))
            toks[i], toks[j] = toks[j], toks[i]
        elif op == 3:
            toks[i] = r.choice(KEYWORDS + PUNCT + ATOMS)
        elif op == 4:
            toks.insert(i, r.choice(KEYWORDS + PUNCT + ATOMS))
        else:
            j = min(len(toks), i + r.range(2, 12))
            del toks[i:j]
        if not toks:
            break
    return "".join(toks)


def list_segments(text):
    """(start, end) char ranges of the comma-separated entries of every (...) [...] {...} group
    that has at least one top-level comma (strings and comments are not looked into)"""
    groups = []
    stack = []
    i, n = 0, len(text)
    while i < n:
        c = text[i]
        if c == '"' or c == "'":
            j = i + 1
            while j < n and text[j] != c and text[j] != "\n":
                j += 2 if text[j] == "\\" else 1
            i = j + 1
            continue
        if text.startswith("//", i):
            j = text.find("\n", i)
            i = n if j < 0 else j
            continue
        if c in "([{":
            stack.append([i, [i + 1]])
        elif c in ")]}" and stack:
            st, cuts = stack.pop()
            if len(cuts) > 1:
                cuts.append(i + 1)
                groups.append([(cuts[k], cuts[k + 1] - 1) for k in range(len(cuts) - 1)])
        elif c == "," and stack:
            stack[-1][1].append(i + 1)
        i += 1
    return groups


def mutate_lists(text, r):
    """an argument / field / pattern list being edited: an entry duplicated, misspelt, inserted in
    front, swapped with its neighbour, dropped, or given / stripped of a `name =`"""
    groups = list_segments(text)
    if not groups:
        return mutate_tokens(text, r)
    g = r.choice(groups)
    ents = [text[a:b] for a, b in g]
    k = r.below(len(ents))
    op = r.below(8)
    e = ents[k].strip()
    name = e.split("=")[0].strip() if "=" in e and "==" not in e else None
    if op == 0:
        ents.insert(k, ents[k])
    elif op == 1:
        ents.insert(0, " zz%d = %s" % (r.below(9), e.split("=")[-1].strip() if name else e))
    elif op == 2 and name:
        ents[k] = ents[k].replace(name, name + "q", 1)
    elif op == 3 and len(ents) > 1:
        j = (k + 1) % len(ents)
        ents[k], ents[j] = ents[j], ents[k]
    elif op == 4:
        del ents[k]
    elif op == 5:
        ents[k] = (" " + e.split("=", 1)[1].strip()) if name else " nm%d = %s" % (r.below(9), e)
    elif op == 6:
        ents.insert(k, " " + (name or "zq") + " = " + r.choice(["_", "w9", "1", "nil"]))
    else:
        ents.append(ents[0])
    a, b = g[0][0], g[-1][1]
    return text[:a] + ",".join(ents) + text[b:]


def soup(r):
    n = r.range(1, 60)
    parts = []
    for _ in range(n):
        k = r.below(10)
        if k < 3:
            parts.append(r.choice(KEYWORDS))
        elif k < 6:
            parts.append(r.choice(PUNCT))
        elif k < 9:
            parts.append(r.choice(ATOMS))
        else:
            parts.append(r.choice(HOSTILE_CHARS))
        parts.append(r.choice([" ", " ", "", "\n"]))
    return "".join(parts)


def nested(r):
    d = r.range(2, 64)
    k = r.below(6)
    if k == 0:
        return "let x = " + "(" * d + "1" + ")" * d + "\n"
    if k == 1:
        return "let x = " + "[" * d + "]" * d + "\n"
    if k == 2:
        return "fn f() {" + "{ " * d + " }" * d + "}\n"
    if k == 3:
        return "let x = " + "-" * d + "1\n"
    if k == 4:
        return "let f = " + "x -> " * d + "x\n"
    return "let x: " + "array<" * d + "int" + ">" * d + " = []\n"


FIXED = ["", " ", "\n", "\n\n\n", "\t", "\r\n", "\ufeff", "#!", "#!/usr/bin/env abra", "#", "#host", "#host\n", "#host\nfn", "\"", "'", '"""', '"""\n', '"""abc\n\n', '"""\n  a\n',
         "/*", "/* a", "/*/", "//", "/", "\\", "\\\n", "let", "let x", "let x =", "let x = \"\\", "let x = \"\\x", "let x = \"\\x4", "let s = '\\q'", "fn", "fn f", "fn f(", "fn f(a, a, b = 1) = a\nf(1, 2)\n",
         "type", "type A", "type A =", "type A = {", "type A = |", "match", "match x {", "1.", "1.e", "0..", "9223372036854775808", "-9223372036854775809", "1" * 5000, "1." + "0" * 400,
         "é", "let é = 1", "let x = 'é€🙂'", "let s = \"\0\"", "\0", "use", "use a/b/", "use x.(", "x.", "x.y.", ".", "..", "x[", "x(", "f(,)", "f(a = )", "[,]", "(,)", "()",
         "task", "task {", "interface I {", "implement I for", "extend int {", "a b c", "if", "if x", "if x {} else", "while", "for x in", "return", "break", "x -> ", "(x, y) ->",
         "let (a, b", "let A(x) = ", "x = = 1", "x +=", "not", "- - - 1", "x ? ? !", "x!?", "1 2 3", "\"a\" \"b\"", "let x = 1;;;;", ";", ",", "}", ")", "]", "{{{{", "let t: T T1 = 1",
         # default values are re-checked at every call that fills them in
         "fn df(a: int = {\n  let q = z -> y -> z + y\n  q(1)(2)\n}) -> int = a\nprintln(df())\n",
         "fn df(a: int = {\n  let q = z -> y -> z + y + outer\n  q(1)(2)\n}) -> int = a\nvar outer = 0\nprintln(df())\nprintln(df(5))\n",
         "fn df(a = x -> y -> z -> x + y + z, b = a) = b\nprintln(df()(1)(2)(3))\nprintln(df()(1)(2)(3))\n",
         "type Pq = {\n  f: int -> int -> int = x -> y -> x * y\n}\nprintln(Pq().f(2)(3))\nprintln(Pq().f(2)(3))\n",
         # a struct field annotated `_`, matched by a struct pattern (open finding: exhaustiveness pass unwraps the field type)
         "type Point = {\n    x: int\n    y: _\n}\nlet pair = (Point(1, 2), Point(3, 4))\nmatch pair {\n    (Point(x = a, y = _), Point(x = _, y = b)) -> a + b\n}\n"]
