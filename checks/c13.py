"""C13 An arm is reported redundant exactly when no value can reach it (see checks/c12.py)."""
from checks import c12

LEVEL = "fault_enumeration"
PROP = "C13"


def run(ctx):
    c12.run_focus(ctx, PROP)


replay = c12.replay
