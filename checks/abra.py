"""Small helpers for emitting Abra source text."""


def strlit(s, quote='"'):
    """Abra string literal denoting exactly the python str s."""
    out = [quote]
    for ch in s:
        o = ord(ch)
        if ch == "\\":
            out.append("\\\\")
        elif ch == quote:
            out.append("\\" + quote)
        elif ch == "\n":
            out.append("\\n")
        elif ch == "\r":
            out.append("\\r")
        elif ch == "\t":
            out.append("\\t")
        elif o < 0x20 or 0x7F <= o <= 0xFF:
            out.append("\\x%02x" % o)
        else:
            out.append(ch)
    out.append(quote)
    return "".join(out)


def intlit(x):
    return "(%d)" % x if x < 0 else "%d" % x
