"""C22 Generic and interface calls dispatch to the concrete type's code.

Observable dispatch: every interface implementation of the user types Pa, Pb, Col, Bag, Grid
prints a marker naming itself and computes something no other implementation computes (Pa.add
adds, Pb.add multiplies; Pb's order is reversed; Pb's equality is modulo 10; Pa.clone adds 1000),
so the output shows WHICH implementation ran. A Python model of every implementation predicts the
output. Cases: operators (== != < <= > >= + - * / ^ ..), for loops, x[i] / x[i] = v / x[i] += v,
sort(), clone(), map keys, user-interface methods (dot syntax and qualified), called directly and
through generic functions with interface constraints instantiated at several concrete types in
one program (the same generic reached from several call sites), unconstrained generic functions,
generic structs and enums at int, string, bool, tuples, arrays, options, user structs and enums,
lambdas capturing values of the instantiated type. The metamorphic half: each generic function is
also written by hand for the concrete type, and both must print the same."""
import vlib
from checks.common import Case, run_cases

LEVEL = "exploration"
PROP = "C22"

DECLS = """use core/map
type Pa = {
  v: int
}
type Pb = {
  v: int
}
type Col =
  | Red
  | Rgb(int)
implement ToString for Pa {
  fn str(s) = "Pa(" .. s.v .. ")"
}
implement ToString for Pb {
  fn str(s) = "Pb<" .. s.v .. ">"
}
implement ToString for Col {
  fn str(s) {
    match s {
      .Red -> "Red"
      .Rgb(n) -> "Rgb" .. n
    }
  }
}
implement Equal for Pa {
  fn equal(a, b) {
    print("[Pa.eq]")
    a.v == b.v
  }
}
implement Equal for Pb {
  fn equal(a, b) {
    print("[Pb.eq]")
    a.v % 10 == b.v % 10
  }
}
implement Equal for Col {
  fn equal(a, b) {
    print("[Col.eq]")
    match (a, b) {
      (.Red, .Red) -> true
      (.Rgb(x), .Rgb(y)) -> x == y
      _ -> false
    }
  }
}
implement Ord for Pa {
  fn less_than(a, b) {
    print("[Pa.lt]")
    a.v < b.v
  }
  fn less_than_or_equal(a, b) {
    print("[Pa.le]")
    a.v <= b.v
  }
  fn greater_than(a, b) {
    print("[Pa.gt]")
    a.v > b.v
  }
  fn greater_than_or_equal(a, b) {
    print("[Pa.ge]")
    a.v >= b.v
  }
}
implement Ord for Pb {
  fn less_than(a, b) {
    print("[Pb.lt]")
    a.v > b.v
  }
  fn less_than_or_equal(a, b) {
    print("[Pb.le]")
    a.v >= b.v
  }
  fn greater_than(a, b) {
    print("[Pb.gt]")
    a.v < b.v
  }
  fn greater_than_or_equal(a, b) {
    print("[Pb.ge]")
    a.v <= b.v
  }
}
implement Num for Pa {
  fn add(a, b) {
    print("[Pa.add]")
    Pa(a.v + b.v)
  }
  fn subtract(a, b) {
    print("[Pa.sub]")
    Pa(a.v - b.v)
  }
  fn multiply(a, b) {
    print("[Pa.mul]")
    Pa(a.v * b.v)
  }
  fn divide(a, b) {
    print("[Pa.div]")
    Pa(a.v / b.v)
  }
  fn power(a, b) {
    print("[Pa.pow]")
    Pa(a.v ^ b.v)
  }
}
implement Num for Pb {
  fn add(a, b) {
    print("[Pb.add]")
    Pb(a.v * b.v)
  }
  fn subtract(a, b) {
    print("[Pb.sub]")
    Pb(b.v - a.v)
  }
  fn multiply(a, b) {
    print("[Pb.mul]")
    Pb(a.v + b.v)
  }
  fn divide(a, b) {
    print("[Pb.div]")
    Pb(a.v - b.v)
  }
  fn power(a, b) {
    print("[Pb.pow]")
    Pb(a.v + b.v + 1)
  }
}
implement Clone for Pa {
  fn clone(x) {
    print("[Pa.clone]")
    Pa(x.v + 1000)
  }
}
implement Clone for Pb {
  fn clone(x) {
    print("[Pb.clone]")
    Pb(x.v + 2000)
  }
}
implement Hash for Pa {
  fn hash(a) {
    print("[Pa.hash]")
    a.v % 3
  }
}
interface Shape {
  fn area(self) -> int
  fn label(self) -> string
}
implement Shape for Pa {
  fn area(self) -> int = self.v * 2
  fn label(self) -> string = "shape-Pa"
}
implement Shape for Pb {
  fn area(self) -> int = self.v * 3
  fn label(self) -> string = "shape-Pb"
}
implement Shape for int {
  fn area(self) -> int = self + 1
  fn label(self) -> string = "shape-int"
}
implement Shape for string {
  fn area(self) -> int = 11
  fn label(self) -> string = "shape-string"
}
implement Shape for (int, int) {
  fn area(self) -> int {
    let (w, h) = self
    w * h
  }
  fn label(self) -> string = "shape-pair"
}
implement Shape for (int, void, int) {
  fn area(self) -> int {
    let (w, u, h) = self
    w * h + 1
  }
  fn label(self) -> string = "shape-triple-with-void"
}
implement Shape for array<T> {
  fn area(self) -> int = self.len() * 100
  fn label(self) -> string = "shape-array"
}
implement Shape for Col {
  fn area(self) -> int {
    match self {
      .Red -> 7
      .Rgb(n) -> n
    }
  }
  fn label(self) -> string = "shape-Col"
}
type Bag = {
  items: array<int>
}
type BagIter = {
  items: array<int>
  i: int
}
implement Iterable for Bag {
  fn make_iterator(self) -> BagIter {
    print("[Bag.iter]")
    BagIter(self.items, 0)
  }
}
implement Iterator for BagIter {
  fn next(self) -> option<int> {
    if self.i >= self.items.len() {
      .none
    } else {
      let x = self.items[self.i]
      self.i = self.i + 1
      option.some(x * 10)
    }
  }
}
type Grid = {
  cells: array<int>
}
implement Index for Grid {
  fn index_get(self, index: int) -> int {
    print("[Grid.get]")
    self.cells[index] * 10
  }
  fn index_set(self, index: int, val: int) -> void {
    print("[Grid.set]")
    self.cells[index] = val + 1
  }
}
type Box<T> = {
  held: T
}
type Either<A, B> =
  | Lft(A)
  | Rgt(B)
fn idg(x: T) -> T = x
fn pairg(x: T, y: U) -> (U, T) = (y, x)
fn firstg(xs: array<T>) -> T = xs[0]
fn wrapg(x: T) -> option<T> = option.some(x)
fn applyg(f: T -> U, x: T) -> U = f(x)
fn unbox(b: Box<T>) -> T = b.held
fn rebox(x: T) -> Box<T> = Box(x)
fn pick(e: Either<T, T>) -> T {
  match e {
    .Lft(x) -> x
    .Rgt(y) -> y
  }
}
fn lastg(xs: array<T>) -> T {
  var r = xs[0]
  for x in xs {
    r = x
  }
  r
}
fn showg(x: T ToString) -> string = "<" .. x .. ">"
fn show2g(x: T ToString, y: U ToString) -> string = x .. "|" .. y
fn sameg(a: T Equal, b: T) -> bool = a == b
fn diffg(a: T Equal, b: T) -> bool = a != b
fn biggest(a: T Ord, b: T) -> T = if a < b { b } else { a }
fn sum3(a: T Num, b: T, c: T) -> T = a + b + c
fn describe(s: T Shape) -> string = Shape.label(s) .. "" .. ":" .. Shape.area(s)
fn describe_q(s: T Shape) -> string = Shape.label(s) .. ":" .. Shape.area(s)
fn dupg(x: T Clone) -> T = Clone.clone(x)
fn containsg(xs: array<T Equal>, t: T) -> bool {
  var found = false
  for x in xs {
    if x == t {
      found = true
    }
  }
  found
}
interface Two {
  fn first(self) -> string
  fn second(self) -> int
  fn third(self, k: int) -> int
}
implement Two for Pa {
  fn first(self) -> string = "Pa.first"
  fn second(self) -> int = self.v + 1
  fn third(self, k: int) -> int = self.v * k
}
implement Two for Pb {
  fn third(self, k: int) -> int = self.v - k
  fn first(self) -> string = "Pb.first"
  fn second(self) -> int = self.v + 2
}
implement Two for int {
  fn second(self) -> int = self + 3
  fn third(self, k: int) -> int = self + k
  fn first(self) -> string = "int.first"
}
fn twog(x: T Two) -> string = Two.first(x) .. ":" .. Two.second(x) .. ":" .. Two.third(x, 2)
fn lamg(x: T ToString, n: int) -> string {
  let f = () -> "<" .. x .. n .. ">"
  f()
}
fn lam2g(x: T ToString, n: int) -> string {
  let f = () -> {
    let g = () -> {
      let y = x
      "<<" .. y .. n .. ">>"
    }
    g()
  }
  f()
}
fn taskg(x: T ToString, n: int) -> string {
  let d: channel<string> = channel()
  task {
    let y = x
    d.write("t<" .. y .. n .. ">")
  }
  d.read()
}
fn lameq(a: T Equal, b: T) -> bool {
  let f = () -> a == b
  f()
}
fn quietg(x: T, n: int) -> int {
  let f = () -> {
    let y = x
    n + 1
  }
  f()
}
fn quiettask(x: T, n: int) -> int {
  let d: channel<int> = channel()
  task {
    let y = x
    d.write(n + 2)
  }
  d.read()
}
"""


# ---- python model of the implementations ------------------------------------------------
class V:
    """model value: (type name, payload)"""

    def __init__(self, ty, x, src):
        self.ty, self.x, self.src = ty, x, src


def show(v):
    t, x = v.ty, v.x
    if t == "Pa":
        return "Pa(%d)" % x
    if t == "Pb":
        return "Pb<%d>" % x
    if t == "Col":
        return "Red" if x is None else "Rgb%d" % x
    if t == "int":
        return str(x)
    if t == "string":
        return x
    if t == "bool":
        return "true" if x else "false"
    if t == "pair":
        return "(%d, %d)" % x
    if t == "mixed":
        return "(%d, %s)" % x
    if t == "vtuple":
        return "(%d, nil, %s)" % x
    if t == "vtriple":
        return "(%d, nil, %d)" % x
    if t == "array":
        return "[ " + ", ".join(str(i) for i in x) + " ]"
    if t == "option":
        return "none" if x is None else "some(%d)" % x
    raise ValueError(t)


def eq(a, b, log):
    t = a.ty
    if t == "Pa":
        log.append("[Pa.eq]")
        return a.x == b.x
    if t == "Pb":
        log.append("[Pb.eq]")
        return a.x % 10 == b.x % 10
    if t == "Col":
        log.append("[Col.eq]")
        return a.x == b.x
    return a.x == b.x


def cmp(op, a, b, log):
    t = a.ty
    if t in ("Pa", "Pb"):
        log.append("[%s.%s]" % (t, {"<": "lt", "<=": "le", ">": "gt", ">=": "ge"}[op]))
        x, y = (a.x, b.x) if t == "Pa" else (b.x, a.x)
    else:
        x, y = a.x, b.x
        if t == "string":
            x, y = x.encode(), y.encode()
    return {"<": x < y, "<=": x <= y, ">": x > y, ">=": x >= y}[op]


def num(op, a, b, log):
    t = a.ty
    if t == "Pa":
        log.append("[Pa.%s]" % {"+": "add", "-": "sub", "*": "mul", "/": "div", "^": "pow"}[op])
        r = {"+": a.x + b.x, "-": a.x - b.x, "*": a.x * b.x, "/": int(a.x / b.x) if b.x else 0, "^": a.x ** b.x}[op]
        return V("Pa", r, None)
    if t == "Pb":
        log.append("[Pb.%s]" % {"+": "add", "-": "sub", "*": "mul", "/": "div", "^": "pow"}[op])
        r = {"+": a.x * b.x, "-": b.x - a.x, "*": a.x + b.x, "/": a.x - b.x, "^": a.x + b.x + 1}[op]
        return V("Pb", r, None)
    r = {"+": a.x + b.x, "-": a.x - b.x, "*": a.x * b.x, "/": int(a.x / b.x), "^": a.x ** b.x}[op]
    return V("int", r, None)


def area(v):
    t, x = v.ty, v.x
    return {"Pa": lambda: x * 2, "Pb": lambda: x * 3, "int": lambda: x + 1, "string": lambda: 11, "pair": lambda: x[0] * x[1],
            "vtriple": lambda: x[0] * x[1] + 1, "array": lambda: len(x) * 100, "Col": lambda: 7 if x is None else x}[t]()


LABEL = {"Pa": "shape-Pa", "Pb": "shape-Pb", "int": "shape-int", "string": "shape-string", "pair": "shape-pair", "array": "shape-array", "Col": "shape-Col", "vtriple": "shape-triple-with-void"}

VALUES = {
    "Pa": [V("Pa", 3, "Pa(3)"), V("Pa", 13, "Pa(13)"), V("Pa", 5, "Pa(5)")],
    "Pb": [V("Pb", 3, "Pb(3)"), V("Pb", 13, "Pb(13)"), V("Pb", 5, "Pb(5)")],
    "Col": [V("Col", None, "Col.Red"), V("Col", 4, "Col.Rgb(4)"), V("Col", 9, "Col.Rgb(9)")],
    "int": [V("int", 3, "3"), V("int", 13, "13"), V("int", -5, "(-5)")],
    "string": [V("string", "ab", '"ab"'), V("string", "abé", '"ab\\xe9"'), V("string", "", '""')],
    "bool": [V("bool", True, "true"), V("bool", False, "false"), V("bool", True, "true")],
    "pair": [V("pair", (2, 5), "(2, 5)"), V("pair", (4, 1), "(4, 1)"), V("pair", (2, 5), "(2, 5)")],
    "mixed": [V("mixed", (2, "z"), '(2, "z")'), V("mixed", (7, "y"), '(7, "y")'), V("mixed", (2, "z"), '(2, "z")')],
    "vtuple": [V("vtuple", (1, "a"), '(1, nil, "a")'), V("vtuple", (1, "b"), '(1, nil, "b")'), V("vtuple", (1, "a"), '(1, nil, "a")')],
    "vtriple": [V("vtriple", (2, 5), "(2, nil, 5)"), V("vtriple", (4, 1), "(4, nil, 1)"), V("vtriple", (2, 5), "(2, nil, 5)")],
    "array": [V("array", [1, 2], "[1, 2]"), V("array", [9], "[9]"), V("array", [1, 2], "[1, 2]")],
    "option": [V("option", 6, "wrapg(6)"), V("option", None, "{ let n: option<int> = option.none; n }"), V("option", 6, "wrapg(6)")],
}
PRINTABLE = ["Pa", "Pb", "Col", "int", "string", "bool", "pair", "mixed", "vtuple", "vtriple", "array", "option"]
EQUAL = ["Pa", "Pb", "Col", "int", "string", "bool", "pair", "vtuple", "vtriple", "array"]
ORD = ["Pa", "Pb", "int", "string"]
NUM = ["Pa", "Pb", "int"]
SHAPE = ["Pa", "Pb", "int", "string", "pair", "vtriple", "array", "Col"]


def out(log, *lines):
    return "".join(log) + "".join(l + "\n" for l in lines)


def cases():
    C = []

    def add(key, body, expect):
        C.append(Case(key, body, ("out", expect), DECLS))
    for t in PRINTABLE:
        a, b, c = VALUES[t]
        # unconstrained generics vs. hand-written (metamorphic) vs. model
        add("idg %s" % t, "println(idg(%s))\nprintln(%s)" % (a.src, a.src), show(a) + "\n" + show(a) + "\n")
        add("firstg/lastg %s" % t, "println(firstg([%s, %s]))\nprintln(lastg([%s, %s]))" % (a.src, b.src, a.src, b.src), show(a) + "\n" + show(b) + "\n")
        add("unbox/rebox %s" % t, "println(unbox(rebox(%s)))\nlet bx = Box(%s)\nprintln(bx.held)" % (b.src, b.src), show(b) + "\n" + show(b) + "\n")
        add("pick %s" % t, "let e1: Either<_, _> = Either.Lft(%s)\nlet e2: Either<_, _> = Either.Rgt(%s)\nprintln(pick(e1))\nprintln(pick(e2))" % (a.src, b.src), show(a) + "\n" + show(b) + "\n")
        add("showg %s" % t, "println(showg(%s))\nprintln(\"<\" .. %s .. \">\")" % (a.src, a.src), "<%s>\n<%s>\n" % (show(a), show(a)))
        add("applyg-capture %s" % t, "let kept = %s\nlet f = (n: int) -> kept\nprintln(applyg(f, 1))\nlet g = (z: int) -> idg(kept)\nprintln(g(2))" % b.src, show(b) + "\n" + show(b) + "\n")
        for u in PRINTABLE:
            x = VALUES[u][1]
            add("pairg/show2g %s,%s" % (t, u), "let (p1, p2) = pairg(%s, %s)\nprintln(p1)\nprintln(p2)\nprintln(show2g(%s, %s))" % (a.src, x.src, a.src, x.src),
                show(x) + "\n" + show(a) + "\n" + show(a) + "|" + show(x) + "\n")
    # several instantiations of one generic in one program, interleaved
    seq = [VALUES[t][0] for t in PRINTABLE]
    add("idg at every type in one program", "\n".join("println(idg(%s))" % v.src for v in seq + seq[::-1]), "".join(show(v) + "\n" for v in seq + seq[::-1]))
    add("showg at every type in one program", "\n".join("println(showg(%s))" % v.src for v in seq), "".join("<%s>\n" % show(v) for v in seq))
    # an implementation may list its methods in any order: dispatch is by name
    for src, e in (("Pa(5)", "Pa.first:6:10"), ("Pb(5)", "Pb.first:7:3"), ("5", "int.first:8:7")):
        add("impl method order %s" % src, "let tv = %s\nprintln(tv.first() .. \":\" .. tv.second() .. \":\" .. tv.third(2))\nprintln(Two.first(tv) .. \":\" .. Two.second(tv) .. \":\" .. Two.third(tv, 2))\nprintln(twog(tv))" % src,
            e + "\n" + e + "\n" + e + "\n")
    add("impl method order at every type in one program", "println(twog(Pb(1)))\nprintln(twog(4))\nprintln(twog(Pa(1)))\nprintln(twog(Pb(2)))", "Pb.first:3:-1\nint.first:7:6\nPa.first:2:2\nPb.first:4:0\n")
    # a lambda / nested lambda / task inside the generic function uses the generic value: one body per
    # instantiation, also when the closure's own type is not generic, also at void
    for g, fmt in (("lamg", "<%s1>"), ("lam2g", "<<%s1>>"), ("taskg", "t<%s1>")):
        add("%s at every type in one program" % g, "\n".join("println(%s(%s, 1))" % (g, v.src) for v in seq + seq[::-1]),
            "".join(fmt % show(v) + "\n" for v in seq + seq[::-1]))
        add("%s at void among others" % g, "println(%s(nil, 1))\nprintln(%s(%s, 1))\nprintln(%s(nil, 1))" % (g, g, seq[0].src, g),
            fmt % "nil" + "\n" + fmt % show(seq[0]) + "\n" + fmt % "nil" + "\n")
    add("quietg at void and others", "println(quietg(nil, 1))\nprintln(quietg(3, 2))\nprintln(quietg(\"s\", 3))\nprintln(quietg(nil, 4))", "2\n3\n4\n5\n")
    add("quiettask at void and others", "println(quiettask(nil, 1))\nprintln(quiettask([1], 2))\nprintln(quiettask(2.5, 3))\nprintln(quiettask(nil, 4))", "3\n4\n5\n6\n")
    body, exp = [], ""
    for t in EQUAL:
        a, b, c = VALUES[t]
        for (x, y) in ((a, b), (b, b)):
            l = []
            r = eq(x, y, l)
            body.append("println(lameq(%s, %s))" % (x.src, y.src))
            exp += out(l, show(V("bool", r, None)))
    add("lameq at every type in one program", "\n".join(body), exp)
    for t in EQUAL:
        a, b, c = VALUES[t]
        for (x, y) in ((a, b), (a, c), (b, b)):
            for op in ("==", "!="):
                l1, l2, l3 = [], [], []
                r = eq(x, y, l1)
                r = r if op == "==" else not r
                eq(x, y, l2)
                eq(x, y, l3)
                g = "sameg" if op == "==" else "diffg"
                add("%s %s %s %s" % (t, x.src, op, y.src), "println(%s %s %s)\nprintln(%s(%s, %s))" % (x.src, op, y.src, g, x.src, y.src),
                    out(l1, show(V("bool", r, None))) + out(l2, show(V("bool", r, None))))
        l = []
        found = False
        for x in (a, b):
            if eq(x, b, l):
                found = True
        add("containsg %s" % t, "println(containsg([%s, %s], %s))" % (a.src, b.src, b.src), out(l, "true" if found else "false"))
    for t in ORD:
        a, b, c = VALUES[t]
        for (x, y) in ((a, b), (b, a), (a, a)):
            for op in ("<", "<=", ">", ">="):
                l = []
                r = cmp(op, x, y, l)
                add("%s %s %s %s" % (t, x.src, op, y.src), "println(%s %s %s)" % (x.src, op, y.src), out(l, "true" if r else "false"))
            l = []
            r = y if cmp("<", x, y, l) else x
            add("biggest %s %s %s" % (t, x.src, y.src), "println(biggest(%s, %s))" % (x.src, y.src), out(l, show(r)))
    for t in NUM:
        a, b, c = VALUES[t]
        for op in ("+", "-", "*", "/", "^"):
            if t == "int" and op == "^":
                x, y = V("int", 3, "3"), V("int", 4, "4")
            else:
                x, y = b, a
            l = []
            r = num(op, x, y, l)
            add("%s %s %s %s" % (t, x.src, op, y.src), "println(%s %s %s)" % (x.src, op, y.src), out(l, show(r)))
            if t != "int":
                l = []
                r = num(op, x, y, l)
                add("%s compound %s=" % (t, op), "var acc = %s\nacc %s= %s\nprintln(acc)" % (x.src, op, y.src), out(l, show(r))) if op in "+-*/" else None
        l = []
        r = num("+", num("+", a, b, l), c, l)
        add("sum3 %s" % t, "println(sum3(%s, %s, %s))" % (a.src, b.src, c.src), out(l, show(r)))
    for t in SHAPE:
        a = VALUES[t][1]
        e = "%s:%d" % (LABEL[t], area(a))
        add("shape %s" % t, "let sv = %s\nprintln(sv.label() .. \":\" .. sv.area())\nprintln(describe(sv))\nprintln(describe_q(sv))\nprintln(Shape.label(sv))" % a.src,
            e + "\n" + e + "\n" + e + "\n" + LABEL[t] + "\n")
    add("describe at every type in one program", "\n".join("println(describe(%s))" % VALUES[t][0].src for t in SHAPE + SHAPE[::-1]),
        "".join("%s:%d\n" % (LABEL[t], area(VALUES[t][0])) for t in SHAPE + SHAPE[::-1]))
    # clone
    add("clone Pa", "println(dupg(Pa(3)))\nprintln(Clone.clone(Pa(4)))\nlet ps = [Pa(1), Pa(2)]\nprintln(ps.clone())", "[Pa.clone]Pa(1003)\n[Pa.clone]Pa(1004)\n[Pa.clone][Pa.clone][ Pa(1001), Pa(1002) ]\n")
    add("clone Pb", "println(dupg(Pb(3)))\nlet ps = [Pb(1)]\nprintln(dupg(ps))", "[Pb.clone]Pb<2003>\n[Pb.clone][ Pb<2001> ]\n")
    add("clone builtin", "println(dupg(5))\nprintln(dupg([1, 2]))\nprintln(dupg(\"s\"))", "5\n[ 1, 2 ]\ns\n")
    # for loops on user Iterable vs. array
    add("for Bag", "var acc = 0\nfor x in Bag([1, 2, 3]) {\n  acc = acc + x\n}\nprintln(acc)\nfor y in [1, 2, 3] {\n  print(y)\n}\nprintln(\"\")", "[Bag.iter]60\n123\n")
    add("for Bag nested", "for x in Bag([1, 2]) {\n  for y in Bag([5]) {\n    print(x + y)\n    print(\",\")\n  }\n}\nprintln(\"\")", "[Bag.iter][Bag.iter]60,[Bag.iter]70,\n")
    # Index
    add("index Grid", "let g = Grid([1, 2, 3])\nprintln(g[1])\ng[1] = 7\nprintln(g.cells)\ng[2] += 4\nprintln(g.cells)\nlet ar = [1, 2, 3]\nar[1] = 7\nprintln(ar[1])",
        "[Grid.get]20\n[Grid.set][ 1, 8, 3 ]\n[Grid.get][Grid.set][ 1, 8, 35 ]\n7\n")
    # sort with user Ord: Pa ascending, Pb descending (its < is reversed)
    add("sort Pa", "let ps = [Pa(3), Pa(1), Pa(2)]\nps.sort()\nprintln(\"\")\nprintln(ps)", None)
    add("sort Pb", "let ps = [Pb(3), Pb(1), Pb(2)]\nps.sort()\nprintln(\"\")\nprintln(ps)", None)
    # map with a user key: Hash + Equal of Pa
    add("map user key", "let m: map<Pa, string> = map.new()\nm.insert(Pa(1), \"one\")\nm.insert(Pa(4), \"four\")\nm.insert(Pa(1), \"uno\")\nprintln(\"\")\nprintln(m.get(Pa(4)))\nprintln(m.get(Pa(1)))\nprintln(m.len())", None)
    return C


def relaxed(kind):
    """expectation for cases where the number/order of marker prints is an implementation detail: the
    markers must all belong to the right implementation and the final lines must be right"""
    def f(obs):
        if obs[0] != "out":
            return "expected completion, observed %r" % (obs[:2],)
        text = obs[1]
        if kind == "sort Pa":
            head, _, tail = text.partition("\n")
            import re
            marks = set(re.findall(r"\[[^\]]+\]", head))
            if not marks or not marks <= {"[Pa.lt]", "[Pa.le]", "[Pa.gt]", "[Pa.ge]"}:
                return "sort of array<Pa> used %s" % sorted(marks)
            return None if tail == "[ Pa(1), Pa(2), Pa(3) ]\n" else "sorted %r" % tail
        if kind == "sort Pb":
            head, _, tail = text.partition("\n")
            import re
            marks = set(re.findall(r"\[[^\]]+\]", head))
            if not marks or not marks <= {"[Pb.lt]", "[Pb.le]", "[Pb.gt]", "[Pb.ge]"}:
                return "sort of array<Pb> used %s" % sorted(marks)
            return None if tail == "[ Pb<3>, Pb<2>, Pb<1> ]\n" else "sorted %r (Pb's order is reversed)" % tail
        if kind == "map user key":
            import re
            lines = text.split("\n")
            marks = set(re.findall(r"\[[^\]]+\]", text))
            if "[Pa.hash]" not in marks or not marks <= {"[Pa.hash]", "[Pa.eq]"}:
                return "map<Pa, _> used %s" % sorted(marks)
            vals = [re.sub(r"\[[^\]]+\]", "", l) for l in lines[1:]]
            return None if vals[:3] == ["four", "uno", "2"] else "map gave %r" % vals[:3]
        return "unknown relaxed kind"
    return f


def run(ctx):
    cs = cases()
    for c in cs:
        if c.expect == ("out", None):
            c.expect = relaxed(c.key)
    nruns, observed, failures = run_cases(ctx, "c22", cs, lambda c: "C22 " + c.key, per_prog=40, std=True)
    ctx.coverage(
        evaluations=nruns,
        distinct_nontrivial=len(observed),
        rule="case = one (operation or generic function, concrete type(s), operand values) combination, each executed in its own runtime and "
             "compared with the Python model of the implementations (markers identify the implementation that ran); all cases are distinct",
        samples=[{"case": c.key, "body": c.body, "expected": c.expect[1] if isinstance(c.expect, tuple) else "relaxed"} for c in (cs[0], cs[len(cs) // 2], cs[-4])],
        cases_total=len(cs),
        failures=failures[:20],
    )
    ctx.need(len(observed) >= 0.98 * len(cs), "only %d of %d cases observed" % (len(observed), len(cs)))


def replay(ctx, rep):
    res = ctx.ex.run_alone(rep["job"])
    print(__import__("json").dumps(res)[:3000])
