"""C28 Values are rendered as text exactly as documented.

Oracle: a 30-line renderer written from the statement (ints decimal, true/false, nil, strings
verbatim, `[ a, b ]`, `(a, b)`, some(x)/none, ok(x)/err(e), recursively). Workload: every type tree
of depth <= 2 over the built-in printable types (depth 3 sampled) with boundary leaf values, each
rendered through `..` (both sides), print, println and ToString.str."""
import itertools

from checks.abra import strlit, intlit
from checks.common import Case, run_cases

LEVEL = "exploration"
MIN, MAX = -(1 << 63), (1 << 63) - 1
SCALARS = ["int", "bool", "void", "string"]
LEAVES = {
    "int": [0, -1, MIN, MAX, 42],
    "bool": [True, False],
    "void": [None],
    "string": ["", "a b", "x,y", "[z]", "é€", "(p)", "none", "some(1)"],
}


def types(depth):
    if depth == 0:
        return list(SCALARS)
    sub = types(depth - 1)
    out = list(SCALARS)
    for t in sub:
        out.append(("array", t))
        out.append(("option", t))
    for a, b in itertools.product(sub, repeat=2):
        out.append(("tuple", (a, b)))
        out.append(("result", a, b))
    return out


def ann(t):
    if isinstance(t, str):
        return t
    if t[0] == "array":
        return "array<%s>" % ann(t[1])
    if t[0] == "option":
        return "option<%s>" % ann(t[1])
    if t[0] == "tuple":
        return "(" + ", ".join(ann(x) for x in t[1]) + ")"
    if t[0] == "result":
        return "result<%s, %s>" % (ann(t[1]), ann(t[2]))


def values(t, r, n=2):
    """a few values of type t as (python value, abra expression)"""
    if isinstance(t, str):
        vs = LEAVES[t]
        pick = vs if len(vs) <= n else r.sample(vs, n)
        out = []
        for v in pick:
            if t == "int":
                out.append((v, intlit(v)))
            elif t == "bool":
                out.append((v, "true" if v else "false"))
            elif t == "void":
                out.append((None, "nil"))
            else:
                out.append((v, strlit(v)))
        return out
    if t[0] == "array":
        sub = values(t[1], r, 3)
        out = [(("A", [sub[0][0]]), "[%s]" % sub[0][1])]
        if len(sub) > 1:
            out.append((("A", [x[0] for x in sub]), "[%s]" % ", ".join(x[1] for x in sub)))
        return out
    if t[0] == "option":
        sub = values(t[1], r, 1)
        return [(("V", "some", sub[0][0]), "option.some(%s)" % sub[0][1]), (("V", "none", None), "option.none")]
    if t[0] == "result":
        a = values(t[1], r, 1)
        b = values(t[2], r, 1)
        return [(("V", "ok", a[0][0]), "result.ok(%s)" % a[0][1]), (("V", "err", b[0][0]), "result.err(%s)" % b[0][1])]
    if t[0] == "tuple":
        subs = [values(x, r, 2) for x in t[1]]
        out = [(("T", [s[0][0] for s in subs]), "(%s)" % ", ".join(s[0][1] for s in subs))]
        out.append((("T", [s[-1][0] for s in subs]), "(%s)" % ", ".join(s[-1][1] for s in subs)))
        return out


def render(v):
    if v is None:
        return "nil"
    if v is True:
        return "true"
    if v is False:
        return "false"
    if isinstance(v, int):
        return str(v)
    if isinstance(v, str):
        return v
    if v[0] == "A":
        return "[ " + ", ".join(render(x) for x in v[1]) + " ]"
    if v[0] == "T":
        return "(" + ", ".join(render(x) for x in v[1]) + ")"
    if v[0] == "V":
        if v[1] == "none":
            return "none"
        return "%s(%s)" % (v[1], render(v[2]))


def run(ctx):
    r = ctx.rng.fork("c28")
    T = types(2)
    compound = [t for t in T if not isinstance(t, str)]
    k = 1 if ctx.quick else 25
    # depth 3 by composition (the full set of depth-3 trees is far too large to enumerate)
    T3 = [("array", t) for t in r.sample(compound, min(len(compound), 60 * k))] + \
         [("option", t) for t in r.sample(compound, min(len(compound), 40 * k))] + \
         [("tuple", (a, b, c)) for a, b, c in [tuple(r.sample(T, 3)) for _ in range(60 * k)]]
    # every tuple arity has its own ToString implementation: arity 4 in the quick tier too
    T3 += [("tuple", tuple(r.sample(T, 4))) for _ in range(40)]
    T3 += [("tuple", tuple(r.choice(["int", "bool", "string", "void"]) for _ in range(4))) for _ in range(40)]
    if not ctx.quick:
        T3 += [("result", a, b) for a, b in [tuple(r.sample(T, 2)) for _ in range(600)]]
        T3 += [("tuple", tuple(r.sample(T, 4))) for _ in range(400)]
    T = T + T3
    cases = []
    n = 0
    for t in T:
        if t[0] == "tuple" and len(t[1]) > 4:
            continue
        for v, e in values(t, r):
            n += 1
            want = render(v)
            route = n % 5
            a = ann(t)
            if route == 0:
                body, exp = 'let v: %s = %s\nprintln("<" .. v .. ">")' % (a, e), "<%s>\n" % want
            elif route == 1:
                body, exp = "let v: %s = %s\nprintln(v)" % (a, e), want + "\n"
            elif route == 2:
                body, exp = 'let v: %s = %s\nprint(v)\nprint("|")' % (a, e), want + "|"
            elif route == 3:
                body, exp = 'let v: %s = %s\nlet s: string = ToString.str(v)\nprintln(s .. "#" .. v)' % (a, e), "%s#%s\n" % (want, want)
            else:
                body, exp = 'let v: %s = %s\nprintln(v .. v)' % (a, e), want + want + "\n"
            cases.append(Case("type=%s value=%s route=%d" % (a, e, route), body, ("out", exp)))
    nruns, observed, failures = run_cases(ctx, "c28", cases, lambda c: "C28 " + c.key, per_prog=200)
    ctx.coverage(
        evaluations=nruns,
        distinct_nontrivial=len(observed),
        rule="case = (type tree, value, rendering route); all type trees of depth <= 2 over int/bool/void/string/array/option/tuple/"
             "result (depth 3 sampled) with boundary leaf values; distinct = distinct cases whose printed text was compared with the "
             "documented rendering",
        samples=[{"case": c.key, "program": c.body, "expected": c.expect[1]} for c in (cases[0], cases[len(cases) // 2], cases[-1])],
        types=len(T),
        failures=failures[:20],
    )
    ctx.need(len(observed) >= 0.98 * len({c.key for c in cases}), "only %d of %d cases observed" % (len(observed), len(cases)))


def replay(ctx, rep):
    res = ctx.ex.run_alone(rep["job"])
    print(__import__("json").dumps(res)[:3000])
