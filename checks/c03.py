"""C03 Every program accepted by the checker compiles to bytecode.

Exhaustive small-scope enumeration: chains of enclosing contexts (function, lambda, task, while,
for, match arm, if branch, block) of depth <= 2 (depth 3 sampled in quick, full in thorough)
around a payload (jumps, returns, tasks, lambdas capturing variables from k levels out in every
way the capture analysis distinguishes, every assignment operator on every target form incl. a
user Index type, operators on user Num/Ord/Equal implementations). Oracle: `check` accepts =>
`compile_bytecode` succeeds (no panic, no error), and the compiled program runs without an
internal fault. A program the checker rejects is fine."""
import itertools

import vlib
from checks import corpus
from checks.common import observe

LEVEL = "fault_enumeration"
PROP = "C03"

DECLS = """use core/map
type Pt = {
  x: int
  y: int
}
implement Num for Pt {
  fn add(a, b) = Pt(a.x + b.x, a.y + b.y)
  fn subtract(a, b) = Pt(a.x - b.x, a.y - b.y)
  fn multiply(a, b) = Pt(a.x * b.x, a.y * b.y)
  fn divide(a, b) = Pt(a.x / b.x, a.y / b.y)
  fn power(a, b) = Pt(a.x ^ b.x, a.y ^ b.y)
}
implement Equal for Pt {
  fn equal(a, b) = a.x == b.x and a.y == b.y
}
implement Ord for Pt {
  fn less_than(a, b) = a.x < b.x
  fn less_than_or_equal(a, b) = a.x <= b.x
  fn greater_than(a, b) = a.x > b.x
  fn greater_than_or_equal(a, b) = a.x >= b.x
}
implement ToString for Pt {
  fn str(p) = "Pt(" .. p.x .. "," .. p.y .. ")"
}
"""

CONTEXTS = ["fn", "lambda", "task", "while", "for", "arm", "if", "block",
            # expression positions of statements (nothing is on the operand stack there): the
            # checker and the code generator must agree on which loop / function encloses them
            "whilecond", "foriter", "ifcond", "scrut", "letinit",
            # top-level items: a generic function called at string, void and array; a member function;
            # a parameter's default value (evaluated in the CALLER's frame)
            "gfn", "method", "dflt"]
TOP_KINDS = ("fn", "gfn", "method", "dflt")


def wrap(kind, k, inner):
    """-> (definition lines placed here, statements placed here) the wrapped code introduces `v<k>`"""
    ind = "\n".join("  " + l for l in inner.split("\n"))
    if kind in TOP_KINDS:
        # a named function can only be declared at top level: lifted by the assembler
        return None
    if kind == "lambda":
        return "let la%d = (a%d: int) -> {\n  var v%d = a%d + %d\n%s\n  v%d\n}\nprintln(la%d(%d))" % (k, k, k, k, k, ind, k, k, k)
    if kind == "task":
        return "let dn%d: channel<int> = channel()\ntask {\n  var v%d = %d\n%s\n  dn%d.write(v%d)\n}\nprintln(dn%d.read())" % (k, k, k, ind, k, k, k)
    if kind == "while":
        return "var v%d = 0\nwhile v%d < 2 {\n  v%d += 1\n%s\n}" % (k, k, k, ind)
    if kind == "for":
        return "var v%d = %d\nfor it%d in 2 {\n%s\n}" % (k, k, k, ind)
    if kind == "arm":
        return "var v%d = %d\nmatch v%d {\n  0 -> {}\n  _ -> {\n%s\n  }\n}" % (k, k + 1, k, "\n".join("  " + l for l in ind.split("\n")))
    if kind == "if":
        return "var v%d = %d\nif v%d > 0 {\n%s\n}" % (k, k + 1, k, ind)
    if kind == "block":
        return "var v%d = %d\n{\n%s\n}" % (k, k, ind)
    if kind == "whilecond":
        return "var v%d = 0\nwhile {\n  v%d += 1\n%s\n  v%d < 2\n} {\n}" % (k, k, ind, k)
    if kind == "foriter":
        return "var v%d = %d\nfor it%d in {\n%s\n  2\n} {\n}" % (k, k, k, ind)
    if kind == "ifcond":
        return "var v%d = %d\nif {\n%s\n  v%d >= 0\n} {\n}" % (k, k, ind, k)
    if kind == "scrut":
        return "var v%d = %d\nmatch {\n%s\n  v%d\n} {\n  _ -> {}\n}" % (k, k, ind, k)
    if kind == "letinit":
        return "var v%d = %d\nlet w%d = {\n%s\n  1\n}" % (k, k, k, ind)
    raise ValueError(kind)


def payloads(depth):
    """payload statements; {v} is replaced by the variable of the context `dist` levels out"""
    P = []
    for name, code in [
        ("break", "break"), ("continue", "continue"), ("return", "return"), ("return-v", "return 5"),
        ("if-break", "if true { break }"), ("if-continue", "if false { continue }"),
        ("match-break", "match 1 { 1 -> break, _ -> {} }"),
        ("local-task", "task { println(1) }"),
        ("panic", 'if false { panic("x") }'),
    ]:
        P.append((name, code, 0))
    for dist in range(0, depth):
        v = "{v%d}" % dist
        P += [
            ("task-capture d%d" % dist, "task { println(%s) }" % v, dist),
            ("lambda-capture d%d" % dist, "let q = (z: int) -> z + %s\nprintln(q(1))" % v, dist),
            ("lambda-nested-capture d%d" % dist, "let q = (z: int) -> {\n  let r = (y: int) -> y + %s\n  r(z)\n}\nprintln(q(1))" % v, dist),
            ("curried d%d" % dist, "let q = z -> y -> z + y + %s\nprintln(q(1)(2))" % v, dist),
            ("lambda-scrutinee d%d" % dist, "let q = (z: int) -> match %s { 0 -> z, _ -> z + 1 }\nprintln(q(1))" % v, dist),
            ("lambda-assign-target d%d" % dist, "let arr = [1, 2]\nlet q = (z: int) -> { arr[%s - %s] = z }\nq(5)\nprintln(arr)" % (v, v), dist),
            ("task-scrutinee d%d" % dist, "task { match %s { 0 -> println(0), _ -> println(1) } }" % v, dist),
            ("task-in-lambda d%d" % dist, "let q = (z: int) -> { task { println(z + %s) } }\nq(1)" % v, dist),
            ("lambda-in-task d%d" % dist, "task {\n  let q = (z: int) -> z + %s\n  println(q(1))\n}" % v, dist),
            ("break-in-lambda d%d" % dist, "let q = (z: int) -> { if z > %s { break } }\nq(1)" % v, dist),
            ("task-write-only d%d" % dist, "task { %s = 5 }" % v, dist),
            ("task-write-only-compound d%d" % dist, "task { %s += 5 }" % v, dist),
            ("task-write-only-nested d%d" % dist, "task {\n  if true { %s = 6 }\n}" % v, dist),
            ("return-in-task d%d" % dist, "task { if %s > 100 { return }\n println(2) }" % v, dist),
        ]
        for op in ("=", "+=", "-=", "*=", "/=", "%="):
            P.append(("assign-var%s d%d" % (op, dist), "%s %s 1\nprintln(%s)" % (v, op, v), dist))
    for op in ("=", "+=", "-=", "*=", "/=", "%="):
        P += [
            ("assign-elem" + op, "let ar = [4, 5]\nar[1] %s 2\nprintln(ar)" % op, 0),
            ("assign-field" + op, "let pt = Pt(4, 5)\npt.x %s 2\nprintln(pt.x)" % op, 0),
            ("assign-nested" + op, "let ps = [Pt(4, 5)]\nps[0].y %s 2\nprintln(ps[0].y)" % op, 0),
            ("assign-userindex" + op, "let mp: map<int, int> = map.new()\nmp[1] = 7\nmp[1] %s 2\nprintln(mp[1])" % op, 0),
        ]
    # the value of a type variable of the nearest enclosing generic function ({g}: only inside `gfn`)
    P += [
        ("generic-local", "let w = {g}\nprintln(1)", 0),
        ("lambda-capture-generic", "let q = (z: int) -> {\n  let w = {g}\n  z + 1\n}\nprintln(q(1))", 0),
        ("nested-lambda-generic", "let q = () -> {\n  let r = () -> {\n    let w = {g}\n    2\n  }\n  r()\n}\nprintln(q())", 0),
        ("task-capture-generic", "let dg: channel<int> = channel()\ntask {\n  let w = {g}\n  dg.write(1)\n}\nprintln(dg.read())", 0),
        ("task-in-lambda-generic", "let q = (z: int) -> {\n  let dg: channel<int> = channel()\n  task {\n    let w = {g}\n    dg.write(z)\n  }\n  dg.read()\n}\nprintln(q(3))", 0),
        ("array-of-generic", "let ar = [{g}, {g}]\nprintln(ar.len())", 0),
        ("option-of-generic", "let og = option.some({g})\nmatch og {\n  .some(w) -> println(1)\n  .none -> println(0)\n}", 0),
        ("generic-through-channel", "let cg = channel()\ncg.write({g})\nlet back = cg.read()\nprintln(2)", 0),
    ]
    for name, e in [("num-add", "Pt(1, 2) + Pt(3, 4)"), ("num-sub", "Pt(1, 2) - Pt(3, 4)"), ("num-mul", "Pt(1, 2) * Pt(3, 4)"),
                    ("num-div", "Pt(4, 2) / Pt(2, 1)"), ("num-pow", "Pt(1, 2) ^ Pt(2, 2)")]:
        P.append((name, "println(%s)" % e, 0))
    for name, e in [("ord-lt", "Pt(1, 2) < Pt(3, 4)"), ("ord-ge", "Pt(1, 2) >= Pt(3, 4)"), ("eq", "Pt(1, 2) == Pt(1, 2)"), ("ne", "Pt(1, 2) != Pt(1, 2)")]:
        P.append((name, "println(%s)" % e, 0))
    P.append(("num-compound", "var pp = Pt(1, 1)\npp += Pt(2, 2)\nprintln(pp)", 0))
    return P


def build(chain, payload):
    """assemble a program: chain = tuple of context kinds, outermost first"""
    name, code, dist = payload
    n = len(chain)
    # variable of the context `d` levels out from the payload: contexts numbered 0..n-1 (outermost 0)
    for d in range(0, 3):
        idx = n - 1 - d
        code = code.replace("{v%d}" % d, "v%d" % idx if idx >= 0 else "vtop")
    if "{g}" in code:
        gk = [i for i in range(n) if chain[i] == "gfn"]
        if not gk:
            return None
        code = code.replace("{g}", "gw%d" % gk[-1])
    body = code
    tops = []
    for k in range(n - 1, -1, -1):
        kind = chain[k]
        ind = "\n".join("  " + l for l in body.split("\n"))
        if kind == "fn":
            tops.append("fn fu%d(a%d: int) -> int {\n  var v%d = a%d + %d\n%s\n  v%d\n}\n" % (k, k, k, k, k, ind, k))
            body = "println(fu%d(%d))" % (k, k)
        elif kind == "gfn":
            tops.append("fn gfu%d(a%d: int, gq%d: T) -> int {\n  var v%d = a%d + %d\n  let gw%d = gq%d\n%s\n  v%d\n}\n" % (k, k, k, k, k, k, k, k, ind, k))
            body = "println(gfu%d(%d, \"s\"))\nprintln(gfu%d(%d, nil))\nprintln(gfu%d(%d, [%d]))" % (k, k, k, k, k, k, k)
        elif kind == "method":
            ind2 = "\n".join("  " + l for l in ind.split("\n"))
            tops.append("extend Pt {\n  fn me%d(self, a%d: int) -> int {\n    var v%d = a%d + self.x\n%s\n    v%d\n  }\n}\n" % (k, k, k, k, ind2, k))
            body = "println(Pt(1, 2).me%d(%d))" % (k, k)
        elif kind == "dflt":
            tops.append("fn df%d(a%d: int = {\n  var v%d = %d\n%s\n  v%d\n}) -> int = a%d\n" % (k, k, k, k, ind, k, k))
            body = "println(df%d())\nprintln(df%d(5))" % (k, k)
        else:
            body = wrap(kind, k, body)
    return DECLS + "".join(reversed(tops)) + "var vtop = 9\n" + body + "\n"


def judge(res):
    cr = vlib.crash_of(res)
    if cr:
        return ("abort", cr[1])
    if res.get("timeout") and "check" not in res:
        return ("no-termination", "neither a diagnostic nor bytecode: check / compile_bytecode did not return within the watchdog")
    c, k = res.get("check", {}), res.get("compile", {})
    if c.get("panic"):
        return ("check-panic", "the checker panicked: %s" % c["panic"])
    if not c.get("ok"):
        if k.get("panic"):
            return ("compile-panic-after-reject", "check rejected, but compile_bytecode panicked: %s" % k["panic"])
        if k.get("ok"):
            return ("check-rejects-compile-accepts", "check rejected the program but compile_bytecode accepted it")
        return None
    if k.get("panic"):
        return ("compile-panic", "check accepted, compile_bytecode panicked: %s" % vlib.panic_sig(k["panic"]))
    if not k.get("ok"):
        return ("compile-error", "check accepted, compile_bytecode returned errors: %s" % (k.get("errors") or "")[:200])
    run = (res.get("runs") or [None])[0]
    if run:
        ob = observe(run)
        if ob[0] == "fault" and not str(ob[1]).startswith("status=cap"):
            return ("runtime-fault", "compiled program hit an internal fault: %s" % (ob[1],))
    return None


def run(ctx):
    r = ctx.rng.fork("c03")
    chains = []
    for n in (1, 2, 3):
        for c in itertools.product(CONTEXTS, repeat=n):
            chains.append(c)
    # depth 3 is sampled (16^3 chains x ~130 payloads is out of reach): 700 chains x 6 payloads in
    # quick, 1200 chains x all payloads in thorough
    d3 = [c for c in chains if len(c) == 3]
    chains = [c for c in chains if len(c) < 3] + r.sample(d3, 700 if ctx.quick else 1200)
    progs = []
    for c in chains:
        ps = payloads(min(len(c), 3))
        if len(c) == 3 and ctx.quick:
            ps = r.sample(ps, 6)
        for p in ps:
            if p[2] >= len(c) + 1:
                continue
            progs.append((c, p))
    jobs, meta = [], {}
    built = []
    for (c, p) in progs:
        src = build(c, p)
        if src is not None:
            built.append((c, p, src))
    for n, (c, p, src) in enumerate(built):
        key = "chain=%s payload=%s" % (">".join(c), p[0])
        jid = "n%06d" % n
        jobs.append({"id": jid, "mode": "checkcompile", "std": True, "files": {"main.abra": src}})
        jobs.append({"id": jid + "r", "std": True, "files": {"main.abra": src}, "runs": [{"budget": {"k": 40}, "max_steps": 100000}]})
        meta[jid] = (key, src)
    results = ctx.run(jobs)
    accepted = 0
    kinds = {}

    def merged(a, b):
        m = dict(a)
        m["runs"] = b.get("runs")
        if "crash" in b:
            m["crash"] = b["crash"]
        return m
    for jid, (key, src) in meta.items():
        res = merged(results[jid], results[jid + "r"])
        if res.get("check", {}).get("ok"):
            accepted += 1
        v = judge(res)
        if v:
            kinds[v[0]] = kinds.get(v[0], 0) + 1
            sig = "%s %s :: %s" % (PROP, key, v[0])
            job = {"id": "confirm", "mode": "checkcompile", "std": True, "files": {"main.abra": src}}

            def j(res2, src=src, sig=sig, kind=v[0], ctx=ctx):
                rr = ctx.ex.run_alone({"id": "confirm-r", "std": True, "files": {"main.abra": src}, "runs": [{"budget": {"k": 40}, "max_steps": 100000}]})
                w = judge(merged(res2, rr))
                return [(sig, w[1])] if w and w[0] == kind else []
            ctx.candidate(sig, v[1] + "\n--- program ---\n" + src[len(DECLS):], job, j)
    nc, _ = corpus.run_corpus(ctx, PROP)
    ctx.coverage(
        evaluations=len(meta) + nc,
        distinct_nontrivial=accepted,
        rule="case = (chain of enclosing contexts, payload); all chains up to depth 2 x all payloads (depth 3: 700 sampled chains x 6 sampled payloads "
             "in quick, 1200 sampled chains x all payloads in thorough); distinct = programs the checker ACCEPTED, each of which was also compiled and executed",
        samples=[{"case": meta["n000010"][0], "program": meta["n000010"][1][len(DECLS):]}],
        programs=len(meta),
        accepted=accepted,
        finding_kinds=kinds,
        exhaustive=False,
    )
    ctx.need(accepted >= 200, "fewer than 200 programs were accepted by the checker")


def replay(ctx, rep):
    res = ctx.ex.run_alone(rep["job"])
    print(__import__("json").dumps(res)[:3000])
