"""C09 Channels deliver each value once, in order, as a valid independent copy.

History + unique ids: every message carries its (writer, sequence) identity in its content; every
reader reports what it received (directly, or forwarded to the printing main program), so the
printed history identifies which write each read observed. The offline checker
(concgen.check_history) decides on every recorded history: each written value received exactly
once, nothing received that was not written, per (reader, writer, channel) sequence order, and
content equal to what was written at the moment of the write (writers mutate the sent object
afterwards, allocate garbage so that their collector runs, or finish before the read). The
quarantine monitor poisons reclaimed objects, so a read that touches a collected or torn-down
writer heap is caught even when the bytes still look right. Bounded progress stands in for
"a read suspends only the reader": every network completes within the step cap although readers
start before the writes.
Schedules: constant budgets 1..1000, seeded random budget sequences, the VM's own collection
pacing, seeded random collection pacing and scripted collection starts."""
import vlib
from checks import concgen

LEVEL = "exploration"
PROP = "C09"

KERNELS = {
    "writer-finishes-before-read": ("""let c: channel<array<int>> = channel()
let d: channel<int> = channel()
task {
  let a = [1, 2, 3]
  a.push(4)
  c.write(a)
  d.write(1)
}
d.read()
var i = 0
while i < 500 { i += 1 }
let b = c.read()
println(b)
""", "[ 1, 2, 3, 4 ]\n"),
    "mutate-after-send": ("""let c: channel<array<int>> = channel()
let a = [1, 2, 3]
c.write(a)
a.push(4)
a[0] = 100
let b = c.read()
println(b)
b.push(5)
println(a)
println(b)
""", "[ 1, 2, 3 ]\n[ 100, 2, 3, 4 ]\n[ 1, 2, 3, 5 ]\n"),
    "writer-collects-after-send": ("""type Box = {
  items: array<string>
}
let c: channel<Box> = channel()
let go: channel<int> = channel()
task {
  var b = Box(["x" .. 1, "y" .. 2])
  c.write(b)
  b = Box([])
  for i in 400 { let junk = ["g" .. i, "h" .. i] }
  go.write(1)
  for i in 400 { let junk = ["g" .. i, "h" .. i] }
}
go.read()
let r = c.read()
println(r.items)
""", "[ x1, y2 ]\n"),
    "reader-first": ("""let c: channel<string> = channel()
let out: channel<string> = channel()
task {
  let s = c.read()
  out.write(s .. "!")
}
var i = 0
while i < 300 { i += 1 }
c.write("late" .. i)
println(out.read())
""", "late300!\n"),
    "channel-of-channels": ("""let cc: channel<channel<int>> = channel()
let inner: channel<int> = channel()
task {
  let ch = cc.read()
  ch.write(41)
  ch.write(42)
}
cc.write(inner)
println(inner.read())
println(inner.read())
""", "41\n42\n"),
    "same-task-fifo": ("""let c: channel<(int, string)> = channel()
for i in 20 { c.write((i, "v" .. i)) }
var ok = true
for i in 20 {
  let (n, s) = c.read()
  if n != i or s != "v" .. i { ok = false }
}
println(ok)
""", "true\n"),
    "void-channel": ("""let done: channel<void> = channel()
task {
  done.write(nil)
  done.write(nil)
}
done.read()
println(done.read())
""", "nil\n"),
    "reader-collects-while-queue-holds-values": ("""let c: channel<array<string>> = channel()
let fin: channel<int> = channel()
task {
  for i in 6 { c.write(["m" .. i, "n" .. i]) }
  fin.write(1)
}
fin.read()
var keep: array<array<string>> = []
for i in 6 {
  for j in 60 { let junk = ["j" .. j] }
  keep.push(c.read())
}
println(keep)
""", "[ [ m0, n0 ], [ m1, n1 ], [ m2, n2 ], [ m3, n3 ], [ m4, n4 ], [ m5, n5 ] ]\n"),
    # a channel handle is itself a heap value: the reader's copy must outlive the sending task
    "channel-in-message-sender-finishes": ("""let registry: channel<channel<int>> = channel()
task {
  let mine: channel<int> = channel()
  mine.write(10)
  mine.write(20)
  registry.write(mine)
}
let got = registry.read()
var spin = 0
for i in 300 { spin += i }
let other: channel<int> = channel()
other.write(1)
other.write(2)
let junk = [[spin], [spin, 1], [spin, 2]]
println(got.read())
println(got.read())
got.write(30)
println(got.read())
println(other.read())
""", "10\n20\n30\n1\n"),
    "reply-channel-sender-finishes": ("""let req: channel<(int, channel<string>)> = channel()
task {
  let (n, reply) = req.read()
  reply.write("r" .. n)
  reply.write("s" .. n)
}
for k in 3 {
  task {
    let mine: channel<string> = channel()
    mine.write("pre" .. k)
    req.write((k, mine))
  }
}
let done: channel<int> = channel()
var spin = 0
while spin < 400 { spin += 1 }
println(spin)
""", "400\n"),
    "channels-inside-array-and-struct": ("""type Box = {
  tag: int
  ch: channel<array<int>>
}
let c: channel<array<Box>> = channel()
task {
  let a: channel<array<int>> = channel()
  let b: channel<array<int>> = channel()
  a.write([1, 2])
  b.write([3])
  b.write([4, 5, 6])
  c.write([Box(1, a), Box(2, b)])
}
let boxes = c.read()
var spin = 0
while spin < 300 { spin += 1 }
let junk = [[spin], [spin]]
println(boxes[0].tag .. " " .. boxes[0].ch.read())
println(boxes[1].tag .. " " .. boxes[1].ch.read())
println(boxes[1].ch.read())
""", "1 [ 1, 2 ]\n2 [ 3 ]\n[ 4, 5, 6 ]\n"),
    "channel-forwarded-through-two-tasks": ("""let first: channel<channel<string>> = channel()
let second: channel<channel<string>> = channel()
task {
  let mine: channel<string> = channel()
  mine.write("a" .. 1)
  mine.write("b" .. 2)
  first.write(mine)
}
task {
  let got = first.read()
  second.write(got)
}
let got = second.read()
var spin = 0
while spin < 300 { spin += 1 }
let pad = ["p" .. spin, "q" .. spin]
println(got.read())
println(got.read())
""", "a1\nb2\n"),
    # several handles on one queue (captures, a channel received through a channel): what one handle has
    # not yet returned to the program is still there for the others
    "handover-reader-handed-to-later-task": ('let records: channel<int> = channel()\nlet report: channel<int> = channel()\ntask {\n  var i = 0\n  while i < 400 {\n    records.write(i)\n    i = i + 1\n  }\n}\nfor k in 5 {\n  println("header " .. records.read())\n}\ntask {\n  var sum = 0\n  for k in 10 {\n    sum = sum + records.read()\n  }\n  report.write(sum)\n}\nprintln("sum of the next ten: " .. report.read())\n', 'header 0\nheader 1\nheader 2\nheader 3\nheader 4\nsum of the next ten: 95\n'),
    "handover-reader-alternates-between-two-handles": ('let data: channel<int> = channel()\nlet turn_a: channel<int> = channel()\nlet turn_b: channel<int> = channel()\nlet out: channel<string> = channel()\ntask {\n  for i in 60 { data.write(i * 3) }\n}\ntask {\n  for r in 6 {\n    let go = turn_a.read()\n    var s = "a" .. r\n    for k in 3 { s = s .. ":" .. data.read() }\n    out.write(s)\n    turn_b.write(1)\n  }\n}\ntask {\n  for r in 6 {\n    let go = turn_b.read()\n    var s = "b" .. r\n    for k in 2 { s = s .. ":" .. data.read() }\n    out.write(s)\n    turn_a.write(1)\n  }\n}\nturn_a.write(1)\nfor r in 12 { println(out.read()) }\n', 'a0:0:3:6\nb0:9:12\na1:15:18:21\nb1:24:27\na2:30:33:36\nb2:39:42\na3:45:48:51\nb3:54:57\na4:60:63:66\nb4:69:72\na5:75:78:81\nb5:84:87\n'),
    "handover-channel-received-through-a-channel-then-read-by-both": ('let data: channel<int> = channel()\nlet pass: channel<channel<int>> = channel()\nlet report: channel<int> = channel()\ntask {\n  for i in 80 { data.write(i + 100) }\n}\nprintln(data.read())\nprintln(data.read())\npass.write(data)\ntask {\n  let mine = pass.read()\n  var sum = 0\n  for k in 7 { sum = sum + mine.read() }\n  report.write(sum)\n}\nprintln("task read " .. report.read())\nprintln(data.read())\n', '100\n101\ntask read 735\n109\n'),
}


def run_specs(seed, quick):
    r = vlib.Rng(seed)
    specs = []
    for k in ([1, 2, 3, 7, 64, 100] if quick else [1, 2, 3, 4, 5, 7, 13, 31, 64, 100, 1000]):
        specs.append({"budget": {"k": k}})
    for i in range(2 if quick else 8):
        specs.append({"budget": {"rand": {"seed": r.next() >> 1, "max": r.choice([2, 3, 9, 33])}}})
    for i in range(3 if quick else 10):
        specs.append({"budget": {"k": r.choice([1, 3, 7, 100])},
                      "gc": {"plan": "random", "seed": r.next() >> 1, "pm": r.choice([20, 80, 300, 1000]), "max": r.choice([1, 8, 64, 100000])}})
    for i in range(2 if quick else 8):
        st = r.range(5, 400)
        specs.append({"budget": {"k": r.choice([1, 7, 100])},
                      "gc": {"plan": "scripted", "start": [st + 40 * j for j in range(40)], "mark": r.choice([1, "max"]), "sweep": r.choice([1, "max"])}})
    for s in specs:
        s["quarantine"] = True
        s["max_steps"] = 1500000
    return specs


def judge_net(net, res):
    """-> list of (class, description)"""
    cr = vlib.crash_of(res)
    if cr:
        return [("abort", cr[1])]
    if not res.get("compile", {}).get("ok"):
        c = res.get("compile", {})
        return [("nocompile", "generated network did not compile: %s" % (c.get("panic") or c.get("errors", "")[:300]))]
    out = []
    for spec, run in zip(res["_specs"], res["runs"]):
        st = run.get("status")
        sched = {k: spec[k] for k in ("budget", "gc") if k in spec}
        if run.get("viol"):
            v = run["viol"][0]
            out.append(("monitor:%s@%s" % (v["kind"], v["site"]), "monitor %s at %s under %s" % (v["kind"], v["site"], sched)))
        elif st == "panic":
            out.append((vlib.panic_sig(run.get("panic")), "internal fault %s under %s" % (run.get("panic"), sched)))
        elif st == "error":
            out.append(("error", "runtime error %r under %s" % ((run.get("err") or "")[:200], sched)))
        elif st == "cap":
            out.append(("no-progress", "the network did not complete within %d instructions under %s (output so far %r)" % (
                spec.get("max_steps", 0), sched, (run.get("output") or "")[-200:])))
        elif st == "done":
            exp = net.get("expect_exact")
            if exp is not None:
                if run.get("output") != exp:
                    out.append(("content", "printed %r, expected %r under %s" % (run.get("output"), exp, sched)))
            else:
                for p in concgen.check_history(net, run.get("output") or "")[:3]:
                    cls = "history:" + p.split(" ")[0] + ":" + ("order" if "out of order" in p else "never" if "never" in p else "dup" if "more often" in p else "other")
                    out.append((cls, "%s under %s; history %r" % (p, sched, (run.get("output") or "")[-300:])))
        else:
            out.append(("status:%s" % st, "run ended with status %s under %s" % (st, sched)))
    seen, uniq = set(), []
    for c, w in out:
        if c not in seen:
            seen.add(c)
            uniq.append((c, w))
    return uniq


def run(ctx):
    n = 260 if ctx.quick else 5000
    nets = concgen.gen_networks(ctx.seed * 13 + 9, n, deterministic=False, mutate_after_send=True)
    nets += concgen.gen_networks(ctx.seed * 13 + 10, n // 3, deterministic=True, mutate_after_send=True)
    for name, (src, exp) in KERNELS.items():
        nets.append({"src": src, "expect_exact": exp, "writes": [], "kernel": name, "kinds": [], "ntasks": 0,
                     "multi_writer": False, "multi_reader": False})
    jobs = []
    for i, net in enumerate(nets):
        specs = run_specs(ctx.seed * 1000003 + i, ctx.quick)
        jobs.append({"id": "n%05d" % i, "files": {"main.abra": net["src"]}, "runs": specs})
    results = ctx.run(jobs)
    evals = 0
    msgs = 0
    kinds = {}
    distinct = set()
    feats = {"multi_writer": 0, "multi_reader": 0, "mutate_after_send": 0, "kernels": 0}
    gc = {"completed": 0, "swept": 0, "parked": 0, "live_checks": 0}
    for i, net in enumerate(nets):
        job = jobs[i]
        res = results[job["id"]]
        res["_specs"] = job["runs"]
        name = net.get("kernel") or ("net:%s" % vlib.hhex(net["src"])[:10])
        for cls, what in judge_net(net, res):
            sig = "%s %s %s" % (PROP, name, cls)

            def judge(r, net=net, job=job, sig=sig, cls=cls):
                r["_specs"] = job["runs"]
                return [(sig, w) for c, w in judge_net(net, r) if c == cls]
            ctx.candidate(sig, what + "\n--- program ---\n" + net["src"], job, judge)
        if not res.get("compile", {}).get("ok"):
            continue
        ok_runs = [r for r in res.get("runs", []) if r.get("status") == "done"]
        evals += len(res.get("runs", []))
        if ok_runs:
            distinct.add(name)
            msgs += len(net["writes"]) * len(ok_runs)
            for k in net["kinds"]:
                kinds[k] = kinds.get(k, 0) + 1
            feats["multi_writer"] += bool(net.get("multi_writer"))
            feats["multi_reader"] += bool(net.get("multi_reader"))
            feats["mutate_after_send"] += bool(net.get("mutates"))
            feats["kernels"] += bool(net.get("kernel"))
        for r in res.get("runs", []):
            for k in gc:
                gc[k] += (r.get("gc") or {}).get(k, 0)
    asan = {"runs": 0, "reports": 0}
    if not ctx.quick:
        # real frees on the AddressSanitizer build (quarantine off): reading a message must not touch a heap that was
        # collected or torn down
        ajobs = []
        for i, net in enumerate(nets[:160] + nets[-len(KERNELS):]):
            specs = [dict(s2) for s2 in run_specs(ctx.seed * 7 + i, True)]
            for s2 in specs:
                s2.pop("quarantine", None)
            ajobs.append({"id": "asan%04d" % i, "files": {"main.abra": net["src"]}, "runs": specs, "_net": i})
        jobs_clean = [{k: v for k, v in j.items() if k != "_net"} for j in ajobs]
        ares, asan["runs"], asan["reports"] = vlib.asan_slice(ctx, jobs_clean, "asan-network")
        for j in ajobs:
            net = (nets[:160] + nets[-len(KERNELS):])[j["_net"]]
            res = ares.get(j["id"], {})
            if res.get("compile", {}).get("ok") and "crash" not in res:
                res["_specs"] = j["runs"]
                for cls, what in judge_net(net, res):
                    if cls.startswith("history") or cls == "content":
                        sig = "%s asan-build %s %s" % (PROP, net.get("kernel") or vlib.hhex(net["src"])[:10], cls)
                        ctx.direct.append((sig, what + "\n--- program ---\n" + net["src"], dict(jobs_clean[ajobs.index(j)], asan=True)))
    ctx.coverage(
        asan_build=asan,
        evaluations=evals + asan["runs"],
        distinct_nontrivial=len(distinct),
        rule="evaluation = one execution of a network under one (budget plan, collection plan) with the quarantine monitor on; "
             "distinct = networks (and named kernels) with at least one completed run whose printed history was checked; "
             "messages = writes whose delivery was checked in a completed history",
        samples=[{"program": nets[0]["src"], "writes": nets[0]["writes"][:6], "plans": run_specs(1, ctx.quick)[:4]}],
        messages_checked=msgs,
        payload_kinds=dict(sorted(kinds.items())),
        network_features=feats,
        gc=gc,
        plans_per_network=len(run_specs(1, ctx.quick)),
    )
    ctx.need(len(distinct) >= 100, "fewer than 100 networks completed")
    ctx.need(gc["completed"] > 50 and gc["live_checks"] > 1000, "too few collection cycles / accessor checks observed: %s" % gc)
    ctx.need(feats["multi_writer"] >= 10 and feats["mutate_after_send"] >= 10, "too few multi-writer / mutate-after-send networks: %s" % feats)


def replay(ctx, rep):
    res = ctx.ex.run_alone(rep["job"])
    print(__import__("json").dumps(res)[:3000])
