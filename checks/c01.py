"""C01 Accepted programs never hit an internal VM fault.

Crash oracle with the VM's tag checks live (the harness builds abra_core with debug assertions):
a Rust panic escaping the runtime, a process abort, an internal error kind, or a status other
than done / documented runtime error / step cap is a violation. Workload: generated well-typed
programs (also those outside the reference interpreter's fragment) and the repository's own
program corpus, each under a family of step budgets."""
import glob
import os
import re

import vlib
from checks import progen, proglib, corpus

LEVEL = "exploration"
PROP = "C01"
KS = [1, 2, 3, 5, 7, 16, 64, 1000, 4294967295]


def fam(seed, quick):
    return {"kind": "budgets", "ks": KS if not quick else [1, 3, 7, 64, 4294967295], "nrand": 1 if quick else 3, "seed": seed,
            "base": {"max_steps": 400000}, "ref": {"budget": {"k": 100}}}


def faults_of(res):
    """list of (class, description) internal faults in a job result"""
    out = []
    cr = vlib.crash_of(res)
    if cr:
        return [("abort", cr[1])]
    comp = res.get("compile", {})
    if not comp.get("ok"):
        return []
    g = res.get("gen")
    runs = []
    if g:
        runs.append(({"budget": "ref"}, g["ref"]))
        for d in g["diffs"] + g["viols"]:
            runs.append((d["variant"], d["outcome"]))
        bad = {k: v for k, v in g["statuses"].items() if k not in ("done", "error", "cap")}
    else:
        bad = {}
        for r in res.get("runs", []):
            runs.append(({}, r))
    for variant, o in runs:
        st = o.get("status")
        if st == "panic":
            out.append((vlib.panic_sig(o.get("panic")), "Rust panic escaped the runtime under %s: %s" % (variant, o.get("panic"))))
        elif st == "error":
            k = vlib.parse_vm_error(o.get("err"))
            if k[0].startswith("internal:"):
                out.append((k[0], "internal error reported under %s: %s" % (variant, o.get("err"))))
        elif st not in ("done", "cap", "nocompile"):
            out.append(("status:" + str(st), "run ended with status %s under %s" % (st, variant)))
        if o.get("over_budget"):
            out.append(("over-budget", "a run consumed more steps than its budget under %s" % (variant,)))
    if bad and not out:
        out.append(("status:" + ",".join(sorted(bad)), "some budget variants ended abnormally: %s" % bad))
    return out


def repo_corpus():
    progs = []
    for f in sorted(glob.glob("/repo/examples/*.abra")):
        progs.append(("examples/" + os.path.basename(f), open(f, encoding="utf-8").read()))
    for f in sorted(glob.glob("/repo/module_tests/*.abra")):
        progs.append(("module_tests/" + os.path.basename(f), open(f, encoding="utf-8").read()))
    for f in sorted(glob.glob("/repo/abra_core/tests/integration/*.rs")):
        txt = open(f, encoding="utf-8").read()
        for i, m in enumerate(re.finditer(r'r#"(.*?)"#', txt, re.S)):
            progs.append(("%s#%d" % (os.path.basename(f), i), m.group(1)))
    # programs that declare their own host functions need a host the harness does not script
    return [(n, s) for (n, s) in progs if "#host" not in s and "#foreign" not in s]


def run(ctx):
    n = 2500 if ctx.quick else 40000
    evals = 0
    distinct = set()
    feats = {}
    rejected = 0
    found = []
    nvariants = 0
    cfgs = [{"size": 40}, {"size": 70, "depth": 5}]
    chunk = 5000
    for start in range(0, n, chunk):
        cfg = cfgs[(start // chunk) % len(cfgs)]
        items, _ = proglib.gen_batch(ctx.seed * 104729 + 3, min(chunk, n - start), cfg, start=start, keep_unsupported=True)
        jobs = [{"id": "p%06d" % idx, "files": {"main.abra": src}, "run_gen": fam(idx, ctx.quick)} for (idx, prog, src, ref) in items]
        results = ctx.run(jobs)
        for (idx, prog, src, ref) in items:
            res = results["p%06d" % idx]
            comp = res.get("compile", {})
            if not comp.get("ok") and not comp.get("panic") and not vlib.crash_of(res):
                rejected += 1
                continue
            if not comp.get("ok"):
                continue  # compiler panics are C03/C04's business
            evals += 1
            nvariants += res["gen"]["variants"] + 1
            distinct.add(vlib.h64(proglib.normalize(src)))
            for f in prog["features"]:
                feats[f] = feats.get(f, 0) + 1
            fs = faults_of(res)
            if fs:
                found.append((idx, prog, src, fs))
    # repository corpus
    rc = repo_corpus()
    jobs = [{"id": "r%04d" % i, "files": {"main.abra": src}, "std": True, "run_gen": dict(fam(i, True), base={"max_steps": 300000})}
            for i, (name, src) in enumerate(rc)]
    results = ctx.run(jobs)
    ncorp = 0
    for i, (name, src) in enumerate(rc):
        res = results["r%04d" % i]
        if not res.get("compile", {}).get("ok"):
            continue
        ncorp += 1
        nvariants += res["gen"]["variants"] + 1
        for cls, what in faults_of(res):
            sig = "%s repo:%s %s" % (PROP, name, cls)
            ctx.candidate(sig, what, jobs[i], lambda r, sig=sig, cls=cls: [(sig, w) for c, w in faults_of(r) if c == cls])
    # generated programs with faults: shrink on the fault class, then register
    seen = set()
    for (idx, prog, src, fs) in found[:(8 if ctx.quick else 30)]:
        cls = fs[0][0]

        def fails(cands, cls=cls):
            js = []
            for i, c in enumerate(cands):
                try:
                    s, _ = progen.emit(c)
                except Exception:
                    s = "@@"
                js.append({"id": "s%04d" % i, "files": {"main.abra": s}, "run_gen": fam(1, True)})
            rs = ctx.run(js)
            return [any(c == cls for c, _w in faults_of(rs["s%04d" % i])) for i in range(len(cands))]
        small = progen.shrink(prog, fails)
        ssrc, _ = progen.emit(small)
        sig = "%s %s %s" % (PROP, cls, vlib.hhex(proglib.normalize(ssrc)))
        if sig in seen:
            continue
        seen.add(sig)
        job = {"id": "confirm", "files": {"main.abra": ssrc}, "run_gen": fam(1, False)}
        ctx.candidate(sig, "%s\n--- minimal program ---\n%s" % (fs[0][1], ssrc), job,
                      lambda r, sig=sig, cls=cls: [(sig, w) for c, w in faults_of(r) if c == cls])
    nc, _ = corpus.run_corpus(ctx, PROP)
    ctx.coverage(
        evaluations=nvariants + nc,
        distinct_nontrivial=len(distinct) + ncorp,
        rule="evaluation = one (program, step-budget plan) run; distinct = distinct alpha-renamed generated programs accepted by "
             "the compiler and executed under the whole budget family, plus repository programs (examples, module tests, "
             "sources embedded in the integration tests) that compile without the ffi feature",
        samples=[{"program": found[0][2], "faults": found[0][3][:2]}] if found else [{"program": "see evidence of C02 for generated program samples", "budgets": KS}],
        generated_programs=evals,
        repo_programs=ncorp,
        rejected_by_compiler=rejected,
        constructs=dict(sorted(feats.items())),
        budgets=KS,
    )
    ctx.need(evals >= 200, "fewer than 200 accepted generated programs")


def replay(ctx, rep):
    res = ctx.ex.run_alone(rep["job"])
    print(__import__("json").dumps(res)[:3000])
