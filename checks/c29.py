"""C29 Comments and optional separators never change a program.

Metamorphic oracle: outcome(P) == outcome(reprint(P)). reprint keeps the token sequence and
  * puts block comments (random text over a hostile alphabet: `*`, `/`, `/*`, quotes, newlines,
    non-ASCII, code-like text; never the closing delimiter) between any two tokens,
  * puts line comments (any text, incl. `*/`, quotes, a trailing backslash) where a newline is,
  * adds blank lines,
  * and, for programs printed by the typed generator, picks `,` / `,`+newline / newline for
    every list separator (arguments, parameters, tuples, arrays, patterns, match arms), `;` /
    `;`+newline / newline between statements of inline blocks, and an optional `;` after
    statements that end a line.
Compared: accepted-or-rejected, printed output, final value, runtime error kind and message
(error line numbers legitimately move and are not compared). Workload: generated programs and
the repository's own programs (comments/blank lines only)."""
import vlib
from checks import progen, proglib, reprint, c01

LEVEL = "exploration"
PROP = "C29"
NVAR = 6


def outcome(res, final=True):
    """`final`: the program ends in a non-void expression statement, so Runtime::top() is its value
    (otherwise the top of the stack is an unspecified local and is not compared)"""
    comp = res.get("compile", {})
    if comp.get("panic"):
        return ("compiler-panic", vlib.panic_sig(comp["panic"]))
    if not comp.get("ok"):
        return ("rejected",)
    o = vlib.run_outcome(res["runs"][0])
    if o[0] == "cap":
        return None
    return ("ran", o[0], o[1], o[2] if final else None, o[3], o[4])


def variants_of(marked, r, n, separators=True):
    out = []
    for i in range(n):
        rr = r.fork("v", i)
        mode = i % 3
        src = marked if separators else reprint.plain(marked)
        if mode == 0:   # comments only
            v, c = reprint.reprint(reprint.plain(src), rr, comments=True, blank_lines=True)
        elif mode == 1:  # separators only
            v, c = reprint.reprint(src, rr, comments=False, blank_lines=True)
        else:
            v, c = reprint.reprint(src, rr, comments=True, blank_lines=True, p_block=25)
        out.append((v, c))
    return out


def emit_marked(prog, bare_items=True):
    """bare_items: a list item that is a negative literal or a unary minus is printed without
    parentheses, so that a newline used as the separator is followed by `-`"""
    old = (progen.LSEP, progen.SSEP, progen.NSEP, progen.BARE_ITEMS)
    progen.LSEP, progen.SSEP, progen.NSEP, progen.BARE_ITEMS = reprint.M_L, reprint.M_S, reprint.M_N, bare_items
    try:
        src, _ = progen.emit(prog)
    finally:
        progen.LSEP, progen.SSEP, progen.NSEP, progen.BARE_ITEMS = old
    return src


def job_of(jid, src, std=False):
    j = {"id": jid, "files": {"main.abra": src}, "runs": [{"max_steps": 1000000}]}
    if std:
        j["std"] = True
    return j


def run(ctx):
    n = 1500 if ctx.quick else 30000
    items, _ = proglib.gen_batch(ctx.seed * 6151 + 29, n, {"size": 45}, keep_unsupported=True)
    r0 = vlib.Rng(ctx.seed * 97 + 29)
    jobs, groups = [], []
    for (idx, prog, src, ref) in items:
        marked = emit_marked(prog, bare_items=idx % 2 == 0)
        if idx % 2:
            assert reprint.plain(marked) == src
        src = reprint.plain(marked)   # the base: `,` and `;` everywhere, no comments
        vs = variants_of(marked, r0.fork(idx), NVAR)
        base = job_of("g%06d-o" % idx, src)
        jobs.append(base)
        vj = []
        for k, (v, c) in enumerate(vs):
            j = job_of("g%06d-%d" % (idx, k), v)
            jobs.append(j)
            vj.append((j, c))
        groups.append(("gen:%s" % vlib.hhex(proglib.normalize(src))[:10], src, base, vj, False, bool(prog["final_ty"])))
    for i, (name, src) in enumerate(c01.repo_corpus()):
        try:
            vs = variants_of(src, r0.fork("repo", i), NVAR, separators=False)
        except AssertionError:
            continue
        base = job_of("r%04d-o" % i, src, std=True)
        jobs.append(base)
        vj = []
        for k, (v, c) in enumerate(vs):
            j = job_of("r%04d-%d" % (i, k), v, std=True)
            jobs.append(j)
            vj.append((j, c))
        groups.append(("repo:" + name, src, base, vj, True, False))
    results = ctx.run(jobs)
    evals = 0
    distinct = set()
    totals = {"block": 0, "line": 0, "blank": 0, "lsep": 0, "ssep": 0, "nsep": 0}
    rejected_orig = 0
    for name, src, base, vj, std, final in groups:
        o0 = outcome(results[base["id"]], final)
        if o0 is None:
            continue
        if o0[0] == "rejected":
            rejected_orig += 1
            continue
        ok_any = False
        for k, (j, c) in enumerate(vj):
            ov = outcome(results[j["id"]], final)
            evals += 1
            if ov is None:
                continue
            for kk in totals:
                totals[kk] += c[kk]
            if ov != o0:
                cls = "rejected" if ov[0] == "rejected" else ("panic" if ov[0] == "compiler-panic" else "behaviour")
                sig = "%s %s variant%d %s" % (PROP, name, k, cls)
                why = "original: %r\nre-printed: %r%s" % (
                    tuple(str(x)[-150:] for x in o0), tuple(str(x)[-150:] for x in ov),
                    ("\n" + (results[j["id"]]["compile"].get("errors") or "")[:600]) if ov[0] == "rejected" else "")
                pair = {"id": "confirm", "files": {"main.abra": j["files"]["main.abra"], "orig.abra": src}, "runs": [{"max_steps": 1000000}], "std": std}

                def judge(res, o0=o0, sig=sig, final=final):
                    o2 = outcome(res, final)
                    return [(sig, "re-printed program gives %r, original gave %r" % (o2, o0))] if (o2 is not None and o2 != o0) else []
                ctx.candidate(sig, why + "\n--- re-printed program ---\n" + j["files"]["main.abra"] + "\n--- original ---\n" + src, pair, judge)
            else:
                ok_any = True
        if ok_any:
            distinct.add(name)
    ctx.coverage(
        evaluations=evals,
        distinct_nontrivial=len(distinct),
        rule="evaluation = one re-printed variant compiled and executed; distinct = accepted original programs (generated + repository) "
             "with at least one variant whose outcome equalled the original's; insertions counts what the variants actually contained",
        samples=[{"original": groups[0][1], "reprinted": groups[0][3][2][0]["files"]["main.abra"]}],
        insertions=totals,
        variants_per_program=NVAR,
        originals_rejected_by_compiler=rejected_orig,
        repository_programs=sum(1 for g in groups if g[4]),
    )
    ctx.need(len(distinct) >= 300, "fewer than 300 programs compared")
    ctx.need(totals["block"] > 1000 and totals["lsep"] > 1000 and totals["ssep"] > 500, "too few insertions: %s" % totals)


def replay(ctx, rep):
    res = ctx.ex.run_alone(rep["job"])
    print(__import__("json").dumps(res)[:3000])
