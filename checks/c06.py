"""C06 Garbage collection never frees an object the program can still reach.

Monitors (verif hooks, real collector code, only its pacing is driven):
  * reclaimed-while-reachable: at every sweep increment an independent traversal from the
    collecting thread's roots (operand stack incl. locals, in-flight string operands, through
    fields/elements/payloads/channel queues) gives the reachable set; the sweeper must not
    reclaim a member of it;
  * use-of-reclaimed: reclaimed objects are quarantined (poisoned, never reused) and every
    object accessor checks its operand;
  * differential: the run must behave exactly like the same program with collection disabled.
Schedules: for short executions EVERY instruction as the cycle start point x mark increment
{1 object, 64 bytes, whole phase} x sweep increment {1 object, whole phase}, optionally with
follow-up cycles; for longer ones sampled start points + seeded random multi-cycle pacings."""
import vlib
from checks import proglib
from checks.gckernels import KERNELS

LEVEL = "exploration"
PROP = "C06"
BASE = {"quarantine": True, "reach": True, "budget": {"k": 64}, "max_steps": 400000}
REF = {"gc": {"plan": "off"}}


def families(quick, seed):
    fams = [
        {"kind": "gc_starts", "base": BASE, "ref": REF, "max_tick": 100000, "points": 400 if quick else 100000,
         "marks": [1, 64, "max"], "sweeps": [1, "max"]},
        {"kind": "gc_starts", "base": BASE, "ref": REF, "max_tick": 100000, "points": 120 if quick else 600,
         "marks": [1, "max"], "sweeps": [1, "max"], "then_every": 37},
        {"kind": "gc_random", "base": BASE, "ref": REF, "n": 24 if quick else 300, "seed": seed},
    ]
    return fams


def judge(res, name):
    out = []
    cr = vlib.crash_of(res)
    if cr:
        return [("%s %s abort" % (PROP, name), cr[1])]
    if not res.get("compile", {}).get("ok"):
        return []
    g = res["gen"]
    ref = g["ref"]
    if ref.get("status") not in ("done", "error"):
        return []  # reference itself inconclusive (cap); nothing to compare
    for v in g["viols"]:
        vi = v["outcome"]["viol"][0]
        out.append(("%s %s %s@%s" % (PROP, name, vi["kind"], vi["site"]),
                    "monitor: %s at %s (tick %s) under plan %s" % (vi["kind"], vi["site"], vi["tick"], v["variant"])))
    for d in g["diffs"]:
        o = d["outcome"]
        out.append(("%s %s differs-from-gc-off" % (PROP, name),
                    "under plan %s the run gave status=%s output=%r err=%s panic=%s; with collection off: status=%s output=%r" % (
                        d["variant"], o.get("status"), (o.get("output") or "")[-100:], (o.get("err") or "")[:80], o.get("panic"),
                        ref.get("status"), (ref.get("output") or "")[-100:])))
    # dedupe by signature
    seen, uniq = set(), []
    for s, w in out:
        if s not in seen:
            seen.add(s)
            uniq.append((s, w))
    return uniq


def run(ctx):
    jobs, meta = [], {}
    fams = families(ctx.quick, ctx.seed)
    for name, src in KERNELS.items():
        for fi, fam in enumerate(fams):
            jid = "k-%s-%d" % (name, fi)
            if name.startswith("late-") and fi == 0:
                # the window in which the cycle has to start is a few instructions wide: every start point, also in quick
                fam = dict(fam, points=100000, marks=[1, 2, 64])
            jobs.append({"id": jid, "files": {"main.abra": src}, "run_gen": fam})
            meta[jid] = ("kernel:" + name, src)
    n = 150 if ctx.quick else 3000
    items, _ = proglib.gen_batch(ctx.seed * 7 + 60606, n, {"size": 60, "depth": 4}, keep_unsupported=True)
    gfams = [
        {"kind": "gc_starts", "base": BASE, "ref": REF, "max_tick": 3000, "points": 60 if ctx.quick else 400, "marks": [1, "max"], "sweeps": [1, "max"]},
        {"kind": "gc_random", "base": BASE, "ref": REF, "n": 6 if ctx.quick else 40, "seed": ctx.seed + 1},
    ]
    for (idx, prog, src, ref) in items:
        for fi, fam in enumerate(gfams):
            jid = "g%05d-%d" % (idx, fi)
            jobs.append({"id": jid, "files": {"main.abra": src}, "run_gen": fam})
            meta[jid] = ("gen:%s" % vlib.hhex(proglib.normalize(src))[:10], src)
    results = ctx.run(jobs)
    evals = 0
    scheds = 0
    agg = {"started": 0, "completed": 0, "swept": 0, "barrier": 0, "live_checks": 0, "reach_checks": 0}
    distinct = set()
    with_cycles = 0
    for job in jobs:
        res = results[job["id"]]
        name, src = meta[job["id"]]
        for sig, what in judge(res, name):
            ctx.candidate(sig, what + "\n--- program ---\n" + src, job, lambda r, name=name: judge(r, name))
        g = res.get("gen")
        if not g:
            continue
        evals += g["variants"] + 1
        scheds += g["distinct_schedules"]
        for k in agg:
            agg[k] += g["agg"].get(k, 0)
        if g["agg"].get("completed", 0) > 0:
            with_cycles += 1
            distinct.add((name, job["id"].rsplit("-", 1)[-1]))
    asan = {"runs": 0, "reports": 0}
    if not ctx.quick:
        # the same kernels with REAL frees (quarantine off) on the AddressSanitizer build: a use of a swept object is a
        # heap-use-after-free there even if the bytes still look right
        ar = vlib.Rng(ctx.seed * 31 + 6)
        ajobs = []
        for name, src in KERNELS.items():
            runs = [{"budget": {"k": 64}, "max_steps": 400000}]
            for i in range(10):
                runs.append({"budget": {"k": 64}, "max_steps": 400000,
                             "gc": {"plan": "random", "seed": ar.next() >> 1, "pm": ar.choice([20, 80, 300, 1000]), "max": ar.choice([1, 8, 64, 100000])}})
            for i in range(6):
                st = ar.range(3, 200)
                runs.append({"budget": {"k": 64}, "max_steps": 400000,
                             "gc": {"plan": "scripted", "start": [st + 37 * j for j in range(60)], "mark": ar.choice([1, 2, "max"]), "sweep": ar.choice([1, "max"])}})
            ajobs.append({"id": "asan-" + name, "files": {"main.abra": src}, "runs": runs})
        ares, asan["runs"], asan["reports"] = vlib.asan_slice(ctx, ajobs, "asan-kernel")
        # without the quarantine the outcome must still equal the first (default pacing) run
        for job in ajobs:
            rr = ares.get(job["id"], {}).get("runs") or []
            if rr and rr[0].get("status") in ("done", "error"):
                for spec, o in zip(job["runs"][1:], rr[1:]):
                    if (o.get("status"), o.get("output"), o.get("err")) != (rr[0].get("status"), rr[0].get("output"), rr[0].get("err")):
                        sig = "%s %s asan-build differs-from-default-pacing" % (PROP, job["id"])
                        ctx.direct.append((sig, "under %s (real frees) the run gave %r / %r, under the VM's own pacing %r" % (
                            spec.get("gc"), o.get("status"), (o.get("output") or "")[-120:], (rr[0].get("output") or "")[-120:]), dict(job, asan=True)))
                        break
    ctx.coverage(
        asan_build=asan,
        evaluations=evals + asan["runs"],
        distinct_nontrivial=len(distinct),
        rule="evaluation = one execution of a program under one collection plan (quarantine + reachability monitors on); "
             "distinct = (program, schedule family) pairs in which at least one collection cycle completed; "
             "distinct_schedules counts different (tick,event,heap,gray) event-sequence hashes actually executed",
        samples=[{"program": KERNELS["pop-after-scan"], "plans": fams[0]}],
        distinct_schedules=scheds,
        gc=agg,
        kernels=len(KERNELS),
        generated_programs=len(items),
        exhaustive=False if ctx.quick else True,
        exhaustive_note="thorough: every instruction of every kernel is a cycle start point (points cap above the run length)",
    )
    ctx.need(agg["completed"] > 100 and agg["swept"] > 100 and agg["reach_checks"] > 0, "too few collection cycles/sweeps observed: %s" % agg)


def replay(ctx, rep):
    res = ctx.ex.run_alone(rep["job"])
    print(__import__("json").dumps(res)[:3000])
