"""C05 Optimization and literal operands never change program behaviour.

Differential oracle, no reference needed: (a) every generated program is compiled twice - with
the peephole optimizer and with it skipped (verif hook) - and both executions must give the same
output, final value and runtime error; (b) every arithmetic/comparison case of a boundary grid
is executed in all operand forms (literal/variable/compound assignment) and the forms must agree
with each other."""
import vlib
from checks import progen, proglib, c15, c16
from checks.common import Case, make_jobs, observe, single_program

LEVEL = "exploration"
PROP = "C05"


def outcome(run):
    o = vlib.run_outcome(run)
    return (o[0], o[1], o[2], o[3], o[4])


def judge_pair(res, final=True):
    """-> None or description: optimizer on vs off (the final value only counts when the last
    statement is a non-void expression; otherwise top-of-stack is an arbitrary local)"""
    cr = vlib.crash_of(res)
    if cr:
        return "abort: " + cr[1]
    c1, c2 = res.get("compile", {}), res.get("compile_noopt", {})
    if not c1.get("ok") and not c2.get("ok"):
        if bool(c1.get("panic")) != bool(c2.get("panic")):
            return "compiler panics only with optimizer %s: %s / %s" % ("on" if c1.get("panic") else "off", c1.get("panic"), c2.get("panic"))
        return None
    if c1.get("ok") != c2.get("ok"):
        return "compiles only with the optimizer %s: %s | %s" % ("on" if c1.get("ok") else "off", str(c1)[:200], str(c2)[:200])
    a, b = res["runs"][0], res["runs"][1]
    if a.get("status") == "cap" or b.get("status") == "cap":
        return None
    oa, ob = outcome(a), outcome(b)
    if not final:
        oa, ob = oa[:2] + (None,) + oa[3:], ob[:2] + (None,) + ob[3:]
    if oa != ob:
        return "optimized run gave %r but unoptimized run gave %r" % (tuple(str(x)[-120:] for x in oa), tuple(str(x)[-120:] for x in ob))
    return None


def job_of(jid, src):
    return {"id": jid, "files": {"main.abra": src}, "runs": [{"max_steps": 1000000}, {"max_steps": 3000000, "noopt": True}]}


def grid_cases(ctx):
    """(group, form, Case)"""
    out = []
    g = [x for x in c15.grid() if abs(x) < 5 or abs(x) > (1 << 61) or x in (4294967298, 64, 63, 1 << 31, 1 << 32)]
    forms = ["ll", "vv", "vl", "lv", "asg", "asgl", "elem", "field", "fn"]
    for a in g:
        for b in g:
            for op in ("+", "-", "*", "/", "%", "^"):
                if op == "^" and b < 0:
                    continue
                for f in forms:
                    bd = c15.body(op, a, b, f)
                    if bd:
                        out.append(("int %s %d %d" % (op, a, b), f, Case("int op=%s form=%s a=%d b=%d" % (op, f, a, b), bd, ("any",), c15.DECLS)))
    F = c16.fset(ctx)[:26] + ["inf", "nan"]
    for a in F:
        for b in F:
            for op in ("+", "-", "*", "/", "^", "<", "<=", ">", ">=", "==", "!="):
                for f in ("vv", "ll", "vl", "lv", "xx", "xl", "lx"):
                    la, lb = f in ("ll", "lv", "lx"), f in ("ll", "vl", "xl")
                    if (la and isinstance(a, str)) or (lb and isinstance(b, str)):
                        continue
                    pre = ""
                    A, B = c16.spell(a, la), c16.spell(b, lb)
                    if f[0] == "x":  # operand is a local variable (what the LOAD-fusing peephole rules match)
                        pre += "let a = %s\n" % A
                        A = "a"
                    if f[1] == "x":
                        pre += "let b = %s\n" % B
                        B = "b"
                    e = "%s %s %s" % (A, op, B)
                    out.append(("float %s %s %s" % (op, c16.key_of(a), c16.key_of(b)), f,
                                Case("float op=%s form=%s a=%s b=%s" % (op, f, c16.key_of(a), c16.key_of(b)), pre + "println(%s)" % e, ("any",), c16.DECLS)))
    S = ["", "a", "ab", "b", "é"]
    from checks.abra import strlit
    for a in S:
        for b in S:
            for op in ("..", "==", "<", ">="):
                for f in ("vv", "ll", "vl", "lv", "xx", "xl", "lx"):
                    A = strlit(a) if f[0] == "l" else "verif_ids(%s)" % strlit(a)
                    B = strlit(b) if f[1] == "l" else "verif_ids(%s)" % strlit(b)
                    pre = ""
                    if f[0] == "x":
                        pre, A = pre + "let a = %s\n" % A, "a"
                    if f[1] == "x":
                        pre, B = pre + "let b = %s\n" % B, "b"
                    out.append(("str %s %r %r" % (op, a, b), f, Case("str op=%s form=%s a=%r b=%r" % (op, f, a, b), pre + "println(%s %s %s)" % (A, op, B), ("any",),
                                                                   "fn verif_ids(x: string) -> string = x\n")))
    for a in (True, False):
        for b in (True, False):
            for op in ("and", "or", "==", "!=", "<", ">="):
                for f in ("vv", "ll", "vl", "lv", "xx", "xl", "lx"):
                    A = str(a).lower() if f[0] == "l" else "verif_idb(%s)" % str(a).lower()
                    B = str(b).lower() if f[1] == "l" else "verif_idb(%s)" % str(b).lower()
                    pre = ""
                    if f[0] == "x":
                        pre, A = pre + "let a = %s\n" % A, "a"
                    if f[1] == "x":
                        pre, B = pre + "let b = %s\n" % B, "b"
                    out.append(("bool %s %s %s" % (op, a, b), f, Case("bool op=%s form=%s a=%s b=%s" % (op, f, a, b), pre + "println(%s %s %s)" % (A, op, B), ("any",),
                                                                    "fn verif_idb(x: bool) -> bool = x\n")))
    return out


def run(ctx):
    n = 3000 if ctx.quick else 60000
    evals = differ = 0
    distinct = set()
    samples = []
    chunk = 6000
    for start in range(0, n, chunk):
        items, _ = proglib.gen_batch(ctx.seed * 31337 + 5, min(chunk, n - start), {"size": 45}, start=start, keep_unsupported=True)
        jobs = [job_of("p%06d" % idx, src) for (idx, prog, src, ref) in items]
        results = ctx.run(jobs)
        for (idx, prog, src, ref) in items:
            res = results["p%06d" % idx]
            if not res.get("compile", {}).get("ok"):
                if res.get("compile", {}).get("panic") is None and not vlib.crash_of(res):
                    continue
            evals += 1
            c1, c2 = res.get("compile", {}), res.get("compile_noopt", {})
            if c1.get("hash") != c2.get("hash"):
                differ += 1
                distinct.add(vlib.h64(proglib.normalize(src)))
                if len(samples) < 2:
                    samples.append({"program": src, "instructions_optimized": c1.get("len"), "instructions_unoptimized": c2.get("len")})
            fin = bool(prog["final_ty"])
            why = judge_pair(res, fin)
            if why:
                sig = "%s opt-diff %s" % (PROP, vlib.hhex(proglib.normalize(src)))
                ctx.candidate(sig, why + "\n--- program ---\n" + src, job_of("confirm", src),
                              lambda r, sig=sig, fin=fin: [(sig, judge_pair(r, fin))] if judge_pair(r, fin) else [])
    # operand forms
    gc = grid_cases(ctx)
    if ctx.quick:
        keep = {}
        for grp, f, c in gc:
            keep.setdefault(grp, []).append((f, c))
        groups = sorted(keep)
        r = ctx.rng.fork("groups")
        r.shuffle(groups)
        groups = groups[:3500]
        gc = [(g, f, c) for g in groups for (f, c) in keep[g]]
    cases = [c for (_g, _f, c) in gc]
    jobs, index = make_jobs("c05g", cases, 250)
    results = ctx.run(jobs)
    obs = {}
    for job in jobs:
        res = results[job["id"]]
        chunk_, owner = index[job["id"]]
        if not res.get("compile", {}).get("ok"):
            ctx.need(False, "form-grid program did not compile: %s" % str(res.get("compile"))[:300])
            continue
        for run_, i in zip(res["runs"], owner):
            o = observe(run_)
            obs[chunk_[i].key] = o[:3] if o[0] == "err" else o
    ngroups = 0
    bygroup = {}
    for grp, f, c in gc:
        bygroup.setdefault(grp, []).append((f, c))
    for grp, lst in bygroup.items():
        seen = {}
        for f, c in lst:
            if c.key in obs:
                seen.setdefault(obs[c.key], []).append((f, c))
        if len(lst) > 1:
            ngroups += 1
        if len(seen) > 1:
            parts = sorted(seen.items(), key=lambda kv: -len(kv[1]))
            major = parts[0]
            for o, fl in parts[1:]:
                for f, c in fl:
                    sig = "%s forms %s form=%s" % (PROP, grp, f)
                    ref_case = major[1][0][1]
                    job = {"id": "confirm", "files": {"main.abra": single_program(c), "other.abra": single_program(ref_case)}, "runs": [{}]}
                    job2 = dict(job, main="other.abra", id="confirm2")

                    def judge(res, c=c, ref_case=ref_case, sig=sig, ctx=ctx):
                        # run both forms alone and compare
                        r2 = ctx.ex.run_alone({"id": "confirm2", "files": {"main.abra": single_program(ref_case)}, "runs": [{}]})
                        if not res.get("compile", {}).get("ok") or not r2.get("compile", {}).get("ok"):
                            return [(sig, "a form does not compile")]
                        o1, o2 = observe(res["runs"][0]), observe(r2["runs"][0])
                        o1 = o1[:3] if o1[0] == "err" else o1
                        o2 = o2[:3] if o2[0] == "err" else o2
                        if o1 != o2:
                            return [(sig, "form %s gives %r but the other forms give %r\n%s\n--- vs ---\n%s" % (c.key, o1, o2, c.body, ref_case.body))]
                        return []
                    ctx.candidate(sig, "operand forms disagree for %s: %s" % (grp, {k: [f for f, _c in v] for k, v in seen.items()}), job, judge)
    evals_total = 2 * evals + len(obs)
    ctx.coverage(
        evaluations=evals_total,
        distinct_nontrivial=len(distinct) + ngroups,
        rule="(a) generated programs executed with the optimizer on and off; distinct counts only programs whose optimized and "
             "unoptimized instruction listings really differ (hash from the verif hook); (b) operator cases executed in every "
             "operand form; distinct counts (operator, a, b) groups observed in at least two forms",
        samples=samples or [{"note": "no program differed in bytecode"}],
        programs=evals,
        programs_with_different_bytecode=differ,
        form_groups=ngroups,
        form_runs=len(obs),
    )
    ctx.need(differ >= 50, "fewer than 50 programs were actually changed by the optimizer")


def replay(ctx, rep):
    res = ctx.ex.run_alone(rep["job"])
    print(__import__("json").dumps(res)[:3000])
