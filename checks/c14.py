"""C14 Match and destructuring select the first matching arm and bind correctly (see c12.py)."""
from checks import c12

LEVEL = "fault_enumeration"
PROP = "C14"


def run(ctx):
    c12.run_focus(ctx, PROP)


replay = c12.replay
