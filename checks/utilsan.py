"""Driver for the utils-san harness (C37 IdSet, C38 Arena): builds it from /repo's working tree
natively, under AddressSanitizer (nightly, -Zsanitizer=address) and under Miri (tree borrows),
runs operation sequences, and turns model violations, sanitizer reports and fatal signals into
candidates. Every sequence is announced before it runs, so a report is attributed to the last
announced sequence; the candidate is confirmed by replaying that one sequence alone."""
import json
import os
import re
import subprocess

import vlib

DIR = os.path.join(vlib.ROOT, "harness-utils")
ENV = dict(os.environ, CARGO_NET_OFFLINE="true")
NATIVE = os.path.join(DIR, "target", "release", "utils-san")
ASAN = os.path.join(DIR, "target-asan", "x86_64-unknown-linux-gnu", "release", "utils-san")


def build(kind):
    if kind == "native":
        cmd, env = ["cargo", "build", "--release", "--offline", "--quiet"], ENV
    elif kind == "asan":
        cmd = ["cargo", "+nightly", "build", "--release", "--offline", "--quiet", "--target", "x86_64-unknown-linux-gnu"]
        env = dict(ENV, RUSTFLAGS="-Zsanitizer=address -Cforce-frame-pointers=yes", CARGO_TARGET_DIR=os.path.join(DIR, "target-asan"))
    else:
        return
    p = subprocess.run(cmd, cwd=DIR, env=env, stdout=subprocess.PIPE, stderr=subprocess.STDOUT, text=True)
    if p.returncode != 0:
        raise vlib.Inconclusive("utils-san %s build failed: %s" % (kind, p.stdout[-1500:]))


def invoke(kind, args, timeout=1800):
    """-> (returncode, stdout+stderr text)"""
    if kind == "native":
        cmd, env = [NATIVE] + args, ENV
    elif kind == "asan":
        cmd, env = [ASAN] + args, dict(ENV, ASAN_OPTIONS="halt_on_error=1:detect_leaks=1:abort_on_error=0")
    else:
        cmd = ["cargo", "+nightly", "miri", "run", "--offline", "--quiet", "--"] + args
        env = dict(ENV, MIRIFLAGS="-Zmiri-tree-borrows", CARGO_TARGET_DIR=os.path.join(DIR, "target-miri"))
    try:
        p = subprocess.run(cmd, cwd=DIR, env=env, stdout=subprocess.PIPE, stderr=subprocess.STDOUT, timeout=timeout)
        return p.returncode, p.stdout.decode("utf-8", "replace")
    except subprocess.TimeoutExpired as e:
        return -999, (e.stdout or b"").decode("utf-8", "replace")


def digest(kind, rc, text):
    """-> (summary dict or None, list of (class, what, sequence label))"""
    found = []
    last_seq = None
    summary = None
    lines = text.split("\n")
    for ln in lines:
        if ln.startswith("SEQ "):
            last_seq = ln[4:]
        elif ln.startswith("VIOL "):
            what, _, seq = ln[5:].partition(" | SEQ ")
            cls = "model:" + re.sub(r"\d+", "N", what.split(":", 1)[-1].strip())[:60]
            found.append((cls, what, seq))
        elif ln.startswith("{\"sequences\""):
            try:
                summary = json.loads(ln)
            except Exception:
                pass
    fatal = None
    m = re.search(r"ERROR: AddressSanitizer: ([\w-]+)", text)
    if m:
        fatal = "asan:" + m.group(1)
    m2 = re.search(r"ERROR: LeakSanitizer: detected memory leaks", text)
    if m2 and not fatal:
        fatal = "lsan:leak"
    m3 = re.search(r"error: Undefined Behavior: ([^\n]{0,90})", text)
    if m3:
        fatal = "miri:" + re.sub(r"0x[0-9a-f]+|\d+", "N", m3.group(1))[:70]
    if fatal is None and rc == -999:
        return summary, found + [("watchdog", "run exceeded the watchdog (inconclusive)", last_seq or "")]
    if fatal is None and rc != 0 and summary is None:
        tail = "\n".join(l for l in lines[-12:] if not l.startswith("SEQ "))
        fatal = "fatal:" + (re.sub(r"0x[0-9a-f]+|\d+", "N", tail.strip().split("\n")[0])[:60] if tail.strip() else "rc=%s" % rc)
    if fatal:
        detail = "\n".join(l for l in lines if not l.startswith("SEQ "))[-1500:]
        found.append((fatal, "%s while running the announced sequence; report tail:\n%s" % (fatal, detail), last_seq or ""))
    return summary, found


def replay_args(target, label):
    """sequence label -> argv of the replay command"""
    if target == "idset":
        elem, _, ops = label.partition(" ")
        return [target, "replay", elem, ops]
    cap, _, ops = label.partition(" ")
    return [target, "replay", "-", ops, cap.replace("cap=", "")]


def run_plan(ctx, prop, target, plan):
    """plan: list of (kind, args, weightless description). Registers candidates; returns totals."""
    totals = {"sequences": 0, "ops": 0}
    per_kind = {}
    built = set()
    for kind, args, desc in plan:
        if kind not in built:
            build(kind)
            built.add(kind)
        rc, text = invoke(kind, args)
        summary, found = digest(kind, rc, text)
        if not summary:
            # the run died before its summary line: count what it announced
            n = text.count("\nSEQ ") + (1 if text.startswith("SEQ ") else 0)
            summary = {"sequences": n, "ops": 0}
        if summary:
            totals["sequences"] += summary["sequences"]
            totals["ops"] += summary["ops"]
            k = per_kind.setdefault(kind, {"sequences": 0, "ops": 0, "runs": 0})
            k["sequences"] += summary["sequences"]
            k["ops"] += summary["ops"]
            k["runs"] += 1
        seen = ctx.__dict__.setdefault("_utilsan_seen", set())
        for cls, what, seq in found:
            if cls == "watchdog":
                ctx.inconclusive.append("%s %s: %s" % (kind, desc, what))
                continue
            sig = "%s %s %s" % (prop, kind, cls)
            if sig in seen:
                continue
            seen.add(sig)
            rargs = replay_args(target, seq) if seq else None
            replay = {"kind": kind, "args": rargs, "sequence": seq, "cmd": "cd /verif/harness-utils && (see checks/utilsan.py invoke(%r, %r))" % (kind, rargs)}
            # confirm by replaying the single sequence alone
            if rargs:
                rc2, text2 = invoke(kind, rargs, timeout=900)
                _s2, found2 = digest(kind, rc2, text2)
                if not any(c2 == cls for c2, _w, _q in found2):
                    ctx.notes.append("not reproduced alone: %s on %s" % (sig, seq))
                    continue
            ctx.direct.append((sig, what + "\nsequence: " + seq, replay))
    return totals, per_kind
