"""C07 Unreachable memory is reclaimed and a dropped runtime frees everything.

"Eventually reclaimed" is restated as bounded progress. Part A: generated allocation-heavy loops
whose reachable data is bounded by construction (a ring of at most 8 kept values; everything else
dies each iteration: literal arrays, arrays pushed to 5..9 elements so that they die with spare
capacity, popped arrays, nested arrays, concatenated strings, structs, enum values, tuples,
options, closures, channels, maps) run for n and for 4n iterations under the VM's OWN collection
pacing; the peak of the VM's heap counter (sampled after every 64-instruction slice through the
statistics hook) for 4n iterations must stay below 1.5 x the peak for n iterations + 64 KiB, and
collection cycles must complete. Part B: a counting global allocator in the executor measures
the live heap of the whole (single-worker) process after each of K create/run/drop cycles of
runtimes made from clones of ONE compiled program, for histories: run to completion, run into a
runtime error, dropped after 1..13 slices, dropped with a host call pending, dropped while tasks
are blocked / spinning / hold unread channel contents. Live bytes and blocks after cycle i must
equal those after cycle i-H (H = number of histories) once warmed up: zero growth per cycle."""
import vlib
from checks import progen, proglib, concgen

LEVEL = "exploration"
PROP = "C07"

GARBAGE = {
    "lit-array": "let g1 = [i, i + 1, i + 2]",
    "pushed-5": "let g2: array<int> = []\n  for k in 5 { g2.push(k + i) }",
    "pushed-7": "let g3 = [i]\n  for k in 6 { g3.push(k) }",
    "pushed-9-strings": "let g4: array<string> = []\n  for k in 9 { g4.push(\"e\" .. k) }",
    "popped": "let g5 = [1, 2, 3, 4, 5, 6, 7, 8]\n  g5.pop()\n  g5.pop()\n  g5.pop()",
    "nested": "let g6 = [[i], [i, i], [i, i, i]]\n  g6[0].push(1)",
    "string": "let g7 = \"s\" .. i .. \"-\" .. (i * 7) .. \"tail\"",
    "struct": "let g8 = Rec(i, [i, i], \"n\" .. i)",
    "enum": "let g9 = Sh.Rect(i, [i, 2])",
    "tuple": "let g10 = (i, \"t\" .. i, [i])",
    "option": "let g11: option<array<int>> = option.some([i, i])",
    "closure": "let g12arr = [i, i]\n  let g12 = (z: int) -> z + g12arr.len()\n  acc = acc + g12(1)",
    "channel": "let g13: channel<array<int>> = channel()\n  g13.write([i, i])\n  let g13r = g13.read()",
    "map": "let g14: map<int, string> = map.new()\n  for k in 6 { g14.insert(k, \"v\" .. k) }",
    "clone": "let g15 = [[i, i], [i]]\n  let g15c = g15.clone()",
    "sort": "let g16 = [5, 3, i, 1, 9, 2, 8]\n  g16.sort()",
}
DECLS = """use core/map
type Rec = {
  a: int
  xs: array<int>
  s: string
}
type Sh =
  | Dot
  | Rect(int, array<int>)
"""


def alloc_program(r, n):
    kinds = r.sample(sorted(GARBAGE), r.range(2, 6))
    body = "\n  ".join(GARBAGE[k] for k in kinds)
    keep = r.chance(60)
    src = DECLS + "var acc = 0\n"
    if keep:
        src += "let ring: array<array<int>> = [[0], [0], [0], [0], [0], [0], [0], [0]]\n"
    src += "for i in %d {\n  %s\n" % (n, body)
    if keep:
        src += "  ring[i % 8] = [i, i + 1, i + 2, i + 3]\n"
    src += "  acc = acc + 1\n}\nprintln(acc)\n"
    return src, kinds


HISTORIES = [
    {"budget": {"k": 4294967295}, "max_steps": 300000},
    {"budget": {"k": 7}, "max_steps": 300000},
    {"budget": {"k": 5}, "drop_after_calls": 1, "max_steps": 300000},
    {"budget": {"k": 3}, "drop_after_calls": 2, "max_steps": 300000},
    {"budget": {"k": 11}, "drop_after_calls": 5, "max_steps": 300000},
    {"budget": {"k": 13}, "drop_after_calls": 13, "max_steps": 300000},
    {"budget": {"k": 50}, "delay": 100000, "drop_after_calls": 6, "max_steps": 300000},   # host call left pending
    {"budget": {"k": 100}, "max_steps": 300000},
]

TASK_PROGRAMS = {
    "blocked-reader-and-unread-queue": """let never: channel<int> = channel()
let full: channel<array<string>> = channel()
task {
  let v = never.read()
}
task {
  for i in 20 { full.write(["unread" .. i, "x"]) }
}
var spin = 0
while spin < 200 { spin += 1 }
println(spin)
""",
    "spinner-and-allocating-task": """task {
  var c = 0
  while true { c = c + 1 }
}
task {
  let a = ["s"]
  while true {
    a.push("x" .. a.len())
    if a.len() > 30 { a.pop(); a.pop() }
  }
}
let keep = ["m" .. 1, "m" .. 2]
var spin = 0
while spin < 300 { spin += 1 }
println(keep)
""",
    "main-error-with-tasks": """let c: channel<string> = channel()
task {
  for i in 10 { c.write("q" .. i) }
}
let got = c.read()
let xs = [1, 2]
println(xs[5])
""",
}


SWEEP_PROGRAMS = {
    "growing-array": """let a: array<array<int>> = []
for i in 60 {
  a.push([i, i, i])
}
println(a.len())
""",
    "growing-strings-and-garbage": """var s = "x"
let keep: array<string> = []
for i in 40 {
  s = s .. i
  keep.push(s)
  let junk = [s, s .. "!"]
}
println(keep.len())
""",
    "task-ends-right-after-receiving": """let c: channel<array<int>> = channel()
let done: channel<int> = channel()
for r in 4 {
  task {
    let got = c.read()
    done.write(got.len())
  }
  let big: array<int> = []
  for i in 40 { big.push(i) }
  c.write(big)
  println(done.read())
}
""",
    "tasks-allocating-then-ending": """let done: channel<int> = channel()
for r in 3 {
  task {
    let xs: array<array<int>> = []
    for i in 12 { xs.push([i, r]) }
    done.write(xs.len())
  }
}
var n = 0
for r in 3 { n = n + done.read() }
println(n)
""",
}


def run(ctx):
    q = ctx.quick
    r0 = vlib.Rng(ctx.seed * 3571 + 7)
    # ---- part A
    na = 40 if q else 600
    n_small = 1500
    jobs, meta = [], {}
    for i in range(na):
        r = r0.fork("a", i)
        s1, kinds = alloc_program(r0.fork("a", i), n_small)
        s4, _ = alloc_program(r0.fork("a", i), 4 * n_small)
        for tag, src in (("s", s1), ("l", s4)):
            jid = "a%04d%s" % (i, tag)
            jobs.append({"id": jid, "files": {"main.abra": src}, "std": True, "runs": [{"budget": {"k": 64}, "max_steps": 40000000}]})
        meta[i] = (kinds, s1)
    results = ctx.run(jobs, job_timeout_s=300)
    ok_a = 0
    cycles = swept = 0
    kinds_h = {}
    ratios = []
    for i in range(na):
        rs, rl = results["a%04ds" % i], results["a%04dl" % i]
        kinds, src = meta[i]
        name = "alloc[%s]" % ",".join(kinds)

        def judge_pair(res_s, res_l, name=name):
            for res in (res_s, res_l):
                cr = vlib.crash_of(res)
                if cr:
                    return [("%s %s abort" % (PROP, name), cr[1])]
                if not res.get("compile", {}).get("ok"):
                    return [("%s %s nocompile" % (PROP, name), "generated program rejected: %s" % str(res.get("compile"))[:300])]
            a, b = res_s["runs"][0], res_l["runs"][0]
            if a.get("status") != "done" or b.get("status") != "done":
                return [("%s %s status" % (PROP, name), "runs ended with %s / %s (%s %s)" % (a.get("status"), b.get("status"), b.get("err"), b.get("panic")))]
            pa, pb = a["peak_heap"], b["peak_heap"]
            out = []
            if pb > 1.5 * pa + 65536:
                out.append(("%s %s heap-grows-with-iterations" % (PROP, name),
                            "peak VM heap %d bytes for %d iterations but %d bytes for %d iterations (bounded reachable data); cycles completed %d / %d" % (
                                pa, n_small, pb, 4 * n_small, a["gc"]["completed"], b["gc"]["completed"])))
            if b["gc"]["completed"] < 1:
                out.append(("%s %s no-collection" % (PROP, name), "no collection cycle completed in %d instructions (peak heap %d bytes)" % (b["steps"], pb)))
            return out
        found = judge_pair(rs, rl)
        for sig, what in found:
            job = {"id": "confirm", "files": {"main.abra": alloc_program(r0.fork("a", i), 4 * n_small)[0]}, "std": True,
                   "runs": [{"budget": {"k": 64}, "max_steps": 40000000}]}
            ctx.candidate(sig, what + "\n--- program (n iterations) ---\n" + src, job,
                          lambda res_l, rs=rs, sig=sig, jp=judge_pair: [(s, w) for s, w in jp(rs, res_l) if s == sig])
        if not found:
            ok_a += 1
            cycles += rl["runs"][0]["gc"]["completed"]
            swept += rl["runs"][0]["gc"]["swept"]
            ratios.append(round(rl["runs"][0]["peak_heap"] / max(1, rs["runs"][0]["peak_heap"]), 2))
            for k in kinds:
                kinds_h[k] = kinds_h.get(k, 0) + 1
    # ---- part B (single worker: the allocator counts the whole process)
    progs = []
    items, _ = proglib.gen_batch(ctx.seed * 19 + 707, 25 if q else 400, {"size": 45, "hosts": False}, keep_unsupported=True)
    for (idx, prog, src, ref) in items:
        progs.append(("gen:%s" % vlib.hhex(proglib.normalize(src))[:8], src, False))
    for i, net in enumerate(concgen.gen_networks(ctx.seed * 23 + 9, 8 if q else 150, deterministic=False, mutate_after_send=True)):
        progs.append(("net:%s" % vlib.hhex(net["src"])[:8], net["src"], False))
    for i in range(6 if q else 100):
        p = concgen.gen_capture(vlib.Rng(ctx.seed * 29 + 11).fork(i))
        progs.append(("cap:%s" % vlib.hhex(p["src"])[:8], p["src"], False))
    for name, src in TASK_PROGRAMS.items():
        progs.append(("tasks:" + name, src, False))
    for i in range(4 if q else 40):
        progs.append(("alloc%d" % i, alloc_program(r0.fork("b", i), 60)[0], True))
    H = len(HISTORIES)
    K = 5 * H if q else 12 * H
    ljobs = [{"id": "l%04d" % i, "mode": "lifecycle", "files": {"main.abra": src}, "std": std, "histories": HISTORIES, "cycles": K}
             for i, (name, src, std) in enumerate(progs)]
    ctx.ex.count_alloc = True
    lres = ctx.run(ljobs, threads=1, job_timeout_s=600)
    ctx.ex.count_alloc = False
    ok_b = 0
    stat_tot = {}
    runtimes = 0

    def judge_life(res, name, H=H, HISTORIES=HISTORIES):
        cr = vlib.crash_of(res)
        if cr:
            return [("%s %s abort" % (PROP, name), cr[1])]
        if not res.get("compile", {}).get("ok"):
            return []
        live = res.get("live") or []
        if len(live) < 3 * H:
            return []
        grow_b = [live[i][0] - live[i - H][0] for i in range(2 * H, len(live))]
        grow_n = [live[i][1] - live[i - H][1] for i in range(2 * H, len(live))]
        if all(g > 0 for g in grow_b) or all(g > 0 for g in grow_n) or (sum(grow_b) > 0 and min(grow_b) >= 0 and sum(1 for g in grow_b if g > 0) > len(grow_b) // 2):
            per = [live[i][0] - live[i - 1][0] for i in range(2 * H, min(len(live), 3 * H))]
            worst = max(range(len(per)), key=lambda j: per[j])
            return [("%s %s leak-per-runtime" % (PROP, name),
                     "process live heap keeps growing over create/run/drop cycles: bytes after cycles %s; blocks %s; largest step after history #%d %s" % (
                         [x[0] for x in live[H:]][:3 * H], [x[1] for x in live[H:]][:2 * H], (2 * H + worst) % H, HISTORIES[(2 * H + worst) % H]))]
        return []
    for job, (name, src, std) in zip(ljobs, progs):
        res = lres[job["id"]]
        found = judge_life(res, name)
        for sig, what in found:
            ctx.candidate(sig, what + "\n--- program ---\n" + src, job, lambda r, name=name: judge_life(r, name))
        if res.get("compile", {}).get("ok") and not found:
            ok_b += 1
            runtimes += len(res.get("live") or [])
            for k, v in (res.get("statuses") or {}).items():
                stat_tot[k] = stat_tot.get(k, 0) + v
    # ---- part C: drop at EVERY step count (the collector is mid-cycle for only a few steps), under
    # the VM's own pacing and under slow scripted pacing (one object per increment: wide windows)
    kmax = 360 if q else 1400
    sweep_h = [{"budget": {"k": k}, "drop_after_calls": 1, "max_steps": 300000} for k in range(1, kmax + 1)]
    starts = list(range(8, kmax, 23))
    sweep_h += [{"budget": {"k": k}, "drop_after_calls": 1, "max_steps": 300000,
                 "gc": {"plan": "scripted", "start": starts, "mark": 1, "sweep": 1}} for k in range(1, kmax + 1, 2)]
    HS = len(sweep_h)
    sprogs = [(n, src) for n, src in SWEEP_PROGRAMS.items()]
    for i in range(2 if q else 12):
        net = concgen.gen_networks(ctx.seed * 31 + 77 + i, 1, deterministic=False, mutate_after_send=True)[0]
        sprogs.append(("net:%s" % vlib.hhex(net["src"])[:8], net["src"]))
    sjobs = [{"id": "s%04d" % i, "mode": "lifecycle", "files": {"main.abra": src}, "histories": sweep_h, "cycles": 3 * HS}
             for i, (name, src) in enumerate(sprogs)]
    ctx.ex.count_alloc = True
    sres = ctx.run(sjobs, threads=1, job_timeout_s=900)
    ctx.ex.count_alloc = False
    drop_phase = [0, 0, 0]
    ok_c = 0
    for job, (name, src) in zip(sjobs, sprogs):
        res = sres[job["id"]]
        found = judge_life(res, "dropsweep " + name, HS, sweep_h)
        for sig, what in found:
            ctx.candidate(sig, what + "\n--- program ---\n" + src, job, lambda r, name=name: judge_life(r, "dropsweep " + name, HS, sweep_h))
        if res.get("compile", {}).get("ok") and not found:
            ok_c += 1
            runtimes += len(res.get("live") or [])
            for ph in range(3):
                drop_phase[ph] += (res.get("drop_phase") or [0, 0, 0])[ph]
    ctx.coverage(
        evaluations=2 * na + runtimes,
        distinct_nontrivial=ok_a + ok_b,
        rule="evaluation = one execution of an allocation loop (part A) or one created-run-dropped runtime (part B); distinct = allocation "
             "programs whose 4n-iteration peak heap stayed within 1.5x the n-iteration peak + 64 KiB with completed collection cycles, plus "
             "programs whose %d create/run/drop cycles (8 histories round-robin) left the process's live heap exactly constant" % K,
        samples=[{"part": "A", "program": meta[0][1][:1500]}, {"part": "B", "histories": HISTORIES}],
        allocation_programs_bounded=ok_a,
        peak_ratio_4n_over_n={"min": min(ratios) if ratios else None, "max": max(ratios) if ratios else None},
        gc_cycles_completed=cycles,
        objects_swept=swept,
        garbage_kinds=dict(sorted(kinds_h.items())),
        lifecycle_programs_flat=ok_b,
        runtimes_created_and_dropped=runtimes,
        lifecycle_endings=stat_tot,
        dropsweep_programs_flat=ok_c,
        dropsweep_step_counts=kmax,
        green_threads_dropped_by_collector_phase={"idle": drop_phase[0], "marking": drop_phase[1], "sweeping": drop_phase[2]},
    )
    ctx.need(drop_phase[1] >= 20 and drop_phase[2] >= 20 or bool(ctx.candidates), "too few green threads were dropped mid-cycle: %s" % drop_phase)
    ctx.need(ok_a >= 0.9 * na or bool(ctx.candidates), "fewer than 90% of the allocation programs confirmed")
    ctx.need(cycles > 50 and swept > 10000, "too few collection cycles / swept objects: %d / %d" % (cycles, swept))
    ctx.need(stat_tot.get("dropped", 0) > 50 and stat_tot.get("done", 0) > 50 and stat_tot.get("error", 0) > 5, "lifecycle endings too narrow: %s" % stat_tot)


def replay(ctx, rep):
    res = ctx.ex.run_alone(rep["job"])
    print(__import__("json").dumps(res)[:3000])
