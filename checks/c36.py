"""C36 Host-function bindings carry arguments and results without loss.

The bindings are GENERATED Rust, so the monitor is a generated crate: per batch the check writes
`util.abra` (about 40 `#host fn` signatures over int / float / bool / string / void / array /
tuple / option / result / `#host` structs and enums, arity 0..4, type depth up to 3), `main.abra`
(calls every function 2-3 times with generator-chosen values and prints a canonical rendering
of what came back), a `build.rs` that calls `generate_host_function_enum`, and a `main.rs` that
turns every `HostFunctionArgs` it receives into a canonical rendering (type-directed code
generated per signature, it does not rely on Debug) and answers with scripted
`HostFunctionRet` values. The crate is built against /repo's abra_core and run.
Oracle: for every call, the host-side rendering of the received arguments must equal the
rendering of the values the generator put into the Abra call, and the Abra-side rendering of the
returned value must equal the rendering of the value the host was scripted to return."""
import os
import shutil
import subprocess

import vlib
from checks.abra import strlit
from checks.progen import rust_debug

LEVEL = "exploration"
PROP = "C36"
WORKDIR = os.path.join(vlib.WORK, "c36")

CARGO_TOML = """[package]
name = "c36host"
version = "0.0.0"
edition = "2024"
publish = false

[workspace]

[dependencies]
abra_core = { path = "/repo/abra_core" }

[build-dependencies]
abra_core = { path = "/repo/abra_core" }

[profile.dev]
opt-level = 0
debug = false
incremental = false
"""

BUILD_RS = """use std::{error::Error, path::PathBuf};
use abra_core::OsFileProvider;
fn main() -> Result<(), Box<dyn Error>> {
    let abra_src_dir = PathBuf::from(std::env::var("CARGO_MANIFEST_DIR")?).join("abra_src");
    println!("cargo:rerun-if-changed=abra_src");
    let file_provider = OsFileProvider::single_dir(abra_src_dir);
    let out_dir = PathBuf::from(std::env::var("OUT_DIR")?);
    if let Err(s) = abra_core::generate_host_function_enum("util.abra", file_provider, &out_dir) {
        panic!("{}", s)
    }
    Ok(())
}
"""

NAMES = ["alpha", "bravo", "charlie", "delta", "echo", "foxtrot", "golf", "hotel", "india", "juliet", "kilo", "lima", "mike", "november", "oscar",
         "papa", "quebec", "romeo", "sierra", "tango", "uniform", "victor", "whiskey", "xray", "yankee", "zulu"]


# ---- types: ("int",) ("float",) ("bool",) ("string",) ("void",) ("array", T) ("tuple", [T..]) ("option", T) ("result", T, E)
#             ("struct", name) ("enum", name)
class World:
    def __init__(self, r):
        self.r = r
        self.structs = {}   # name -> [(field, type)]
        self.enums = {}     # name -> [(variant, [types])]

    def rand_type(self, d, allow_void=False, allow_user=True):
        r = self.r
        k = r.below(16)
        if d <= 0 or k < 6:
            return r.choice([("int",), ("int",), ("float",), ("bool",), ("string",), ("string",)] + ([("void",)] if allow_void else []))
        if k < 8:
            return ("array", self.rand_type(d - 1))
        if k < 10:
            return ("tuple", [self.rand_type(d - 1) for _ in range(r.range(2, 3))])
        if k < 12:
            return ("option", self.rand_type(d - 1))
        if k < 13:
            return ("result", self.rand_type(d - 1), r.choice([("string",), ("int",)]))
        if allow_user and self.structs and k < 15:
            return ("struct", r.choice(sorted(self.structs)))
        if allow_user and self.enums:
            return ("enum", r.choice(sorted(self.enums)))
        return ("int",)

    def make_user_types(self):
        r = self.r
        for i in range(r.range(1, 3)):
            name = "Rec%s" % "ABC"[i] + "x"
            self.structs[name] = [("f%d" % j, self.rand_type(2, allow_void=(j > 0 and r.chance(15)), allow_user=bool(self.structs) and r.chance(40))) for j in range(r.range(1, 4))]
        for i in range(r.range(1, 3)):
            name = "Kind%s" % "ABC"[i] + "x"
            vs = []
            for j in range(r.range(2, 4)):
                vs.append(("V%d%s" % (j, "abc"[i]), [self.rand_type(1, allow_user=False) for _ in range(r.choice([0, 0, 1, 1, 2]))]))
            self.enums[name] = vs

    # ---- values
    def rand_value(self, t, d=0):
        r = self.r
        k = t[0]
        if k == "int":
            return r.choice([0, 1, -1, 7, 42, -(1 << 63), (1 << 63) - 1, 1 << 40, r.range(-1000, 1000)])
        if k == "float":
            return r.choice([0.0, 0.5, -2.25, 1024.125, 3.0, -0.125, 100000.5])
        if k == "bool":
            return r.chance(50)
        if k == "string":
            return r.choice(["", "a", "hello world", "é€", "semi;colon", "quote\"s", "tab\tx", "🙂", "comma, paren(", "line\nbreak"])
        if k == "void":
            return None
        if k == "array":
            return [self.rand_value(t[1], d + 1) for _ in range(r.choice([0, 1, 2, 3]))]
        if k == "tuple":
            return tuple(self.rand_value(x, d + 1) for x in t[1])
        if k == "option":
            return ("none",) if r.chance(35) else ("some", self.rand_value(t[1], d + 1))
        if k == "result":
            return ("err", self.rand_value(t[2], d + 1)) if r.chance(35) else ("ok", self.rand_value(t[1], d + 1))
        if k == "struct":
            return {f: self.rand_value(ft, d + 1) for f, ft in self.structs[t[1]]}
        if k == "enum":
            v, ts = r.choice(self.enums[t[1]])
            return (v, [self.rand_value(x, d + 1) for x in ts])
        raise ValueError(t)

    # ---- Abra spelling of types and values
    def ab_type(self, t):
        k = t[0]
        if k in ("int", "float", "bool", "string", "void"):
            return k
        if k == "array":
            return "array<%s>" % self.ab_type(t[1])
        if k == "tuple":
            return "(" + ", ".join(self.ab_type(x) for x in t[1]) + ")"
        if k == "option":
            return "option<%s>" % self.ab_type(t[1])
        if k == "result":
            return "result<%s, %s>" % (self.ab_type(t[1]), self.ab_type(t[2]))
        return t[1]

    def ab_value(self, t, v, tmp):
        """Abra expression (may use typed helper lets appended to tmp)"""
        k = t[0]
        if k == "int":
            return "(-9223372036854775807 - 1)" if v == -(1 << 63) else ("(%d)" % v if v < 0 else str(v))
        if k == "float":
            return "(%r)" % v if v < 0 else repr(v)
        if k == "bool":
            return "true" if v else "false"
        if k == "string":
            return strlit(v)
        if k == "void":
            return "nil"
        if k == "array":
            if not v:
                n = "tv%d" % len(tmp)
                tmp.append("let %s: %s = []" % (n, self.ab_type(t)))
                return n
            return "[" + ", ".join(self.ab_value(t[1], x, tmp) for x in v) + "]"
        if k == "tuple":
            return "(" + ", ".join(self.ab_value(x, y, tmp) for x, y in zip(t[1], v)) + ")"
        if k in ("option", "result"):
            inner = "option.none" if v[0] == "none" else "%s.%s(%s)" % (k, v[0], self.ab_value(t[1] if v[0] in ("some", "ok") else t[2], v[1], tmp))
            n = "tv%d" % len(tmp)
            tmp.append("let %s: %s = %s" % (n, self.ab_type(t), inner))
            return n
        if k == "struct":
            return "%s(%s)" % (t[1], ", ".join(self.ab_value(ft, v[f], tmp) for f, ft in self.structs[t[1]]))
        if k == "enum":
            vn, ts = next(x for x in self.enums[t[1]] if x[0] == v[0])
            if not ts:
                return "%s.%s" % (t[1], vn)
            return "%s.%s(%s)" % (t[1], vn, ", ".join(self.ab_value(x, y, tmp) for x, y in zip(ts, v[1])))
        raise ValueError(t)

    # ---- canonical rendering (python side)
    def render(self, t, v):
        k = t[0]
        if k == "int":
            return str(v)
        if k == "float":
            return "f8:%d" % int(v * 8)
        if k == "bool":
            return "true" if v else "false"
        if k == "string":
            return rust_debug(v)
        if k == "void":
            return "nil"
        if k == "array":
            return "[" + ",".join(self.render(t[1], x) for x in v) + "]"
        if k == "tuple":
            return "(" + ",".join(self.render(x, y) for x, y in zip(t[1], v)) + ")"
        if k == "option":
            return "none" if v[0] == "none" else "some(%s)" % self.render(t[1], v[1])
        if k == "result":
            return "ok(%s)" % self.render(t[1], v[1]) if v[0] == "ok" else "err(%s)" % self.render(t[2], v[1])
        if k == "struct":
            return t[1] + "{" + ",".join("%s=%s" % (f, self.render(ft, v[f])) for f, ft in self.structs[t[1]]) + "}"
        if k == "enum":
            vn, ts = next(x for x in self.enums[t[1]] if x[0] == v[0])
            return "%s.%s(%s)" % (t[1], vn, ",".join(self.render(x, y) for x, y in zip(ts, v[1])))
        raise ValueError(t)

    # ---- Rust: type names, value expressions, rendering code
    def rs_type(self, t):
        k = t[0]
        if k == "int":
            return "AbraInt"
        if k == "float":
            return "f64"
        if k == "bool":
            return "bool"
        if k == "string":
            return "String"
        if k == "void":
            return "()"
        if k == "array":
            return "Vec<%s>" % self.rs_type(t[1])
        if k == "tuple":
            return "(" + ", ".join(self.rs_type(x) for x in t[1]) + ",)"
        if k == "option":
            return "Option<%s>" % self.rs_type(t[1])
        if k == "result":
            return "Result<%s, %s>" % (self.rs_type(t[1]), self.rs_type(t[2]))
        return t[1]

    def rs_value(self, t, v):
        k = t[0]
        if k == "int":
            return "(%d as i128 as AbraInt)" % v if v != -(1 << 63) else "AbraInt::MIN"
        if k == "float":
            return "(%r_f64)" % v
        if k == "bool":
            return "true" if v else "false"
        if k == "string":
            return "String::from(%s)" % rust_debug(v)
        if k == "void":
            return "()"
        if k == "array":
            return "vec![" + ", ".join(self.rs_value(t[1], x) for x in v) + "]" if v else "Vec::<%s>::new()" % self.rs_type(t[1])
        if k == "tuple":
            return "(" + ", ".join(self.rs_value(x, y) for x, y in zip(t[1], v)) + ",)"
        if k == "option":
            return "None::<%s>" % self.rs_type(t[1]) if v[0] == "none" else "Some(%s)" % self.rs_value(t[1], v[1])
        if k == "result":
            ty = "Result::<%s, %s>" % (self.rs_type(t[1]), self.rs_type(t[2]))
            return "%s::Ok(%s)" % (ty, self.rs_value(t[1], v[1])) if v[0] == "ok" else "%s::Err(%s)" % (ty, self.rs_value(t[2], v[1]))
        if k == "struct":
            return "%s { %s }" % (t[1], ", ".join("%s: %s" % (f, self.rs_value(ft, v[f])) for f, ft in self.structs[t[1]]))
        if k == "enum":
            vn, ts = next(x for x in self.enums[t[1]] if x[0] == v[0])
            if not ts:
                return "%s::%s" % (t[1], vn)
            inner = ", ".join(self.rs_value(x, y) for x, y in zip(ts, v[1]))
            # the bindings give a variant with several fields ONE tuple payload
            return "%s::%s(%s)" % (t[1], vn, inner if len(ts) == 1 else "(%s)" % inner)
        raise ValueError(t)

    def rs_render_fns(self):
        """Rust source: one `fn r_<id>(v: &T) -> String` per type used"""
        return "\n".join(self._rs_fns.values())

    def rs_render(self, t):
        """name of the Rust function rendering a &T (defines it on first use)"""
        key = repr(t)
        if not hasattr(self, "_rs_fns"):
            self._rs_fns, self._rs_names = {}, {}
        if key in self._rs_names:
            return self._rs_names[key]
        name = "r_%d" % len(self._rs_names)
        self._rs_names[key] = name
        k = t[0]
        ty = self.rs_type(t)
        if k == "int":
            body = "format!(\"{}\", v)"
        elif k == "float":
            body = "format!(\"f8:{}\", (*v * 8.0) as i64)"
        elif k == "bool":
            body = "format!(\"{}\", v)"
        elif k == "string":
            body = "format!(\"{:?}\", v)"
        elif k == "void":
            body = "String::from(\"nil\")"
        elif k == "array":
            f = self.rs_render(t[1])
            body = "format!(\"[{}]\", v.iter().map(|x| %s(x)).collect::<Vec<_>>().join(\",\"))" % f
        elif k == "tuple":
            parts = ", ".join("%s(&v.%d)" % (self.rs_render(x), i) for i, x in enumerate(t[1]))
            body = "format!(\"({})\", vec![%s].join(\",\"))" % parts
        elif k == "option":
            f = self.rs_render(t[1])
            body = "match v { Some(x) => format!(\"some({})\", %s(x)), None => String::from(\"none\") }" % f
        elif k == "result":
            f, g = self.rs_render(t[1]), self.rs_render(t[2])
            body = "match v { Ok(x) => format!(\"ok({})\", %s(x)), Err(e) => format!(\"err({})\", %s(e)) }" % (f, g)
        elif k == "struct":
            parts = ", ".join("format!(\"%s={}\", %s(&v.%s))" % (f, self.rs_render(ft), f) for f, ft in self.structs[t[1]])
            body = "format!(\"%s{{{}}}\", vec![%s].join(\",\"))" % (t[1], parts)
        elif k == "enum":
            arms = []
            for vn, ts in self.enums[t[1]]:
                if not ts:
                    arms.append("%s::%s => String::from(\"%s.%s()\")" % (t[1], vn, t[1], vn))
                else:
                    binds = ", ".join("x%d" % i for i in range(len(ts)))
                    parts = ", ".join("%s(x%d)" % (self.rs_render(x), i) for i, x in enumerate(ts))
                    if len(ts) > 1:
                        binds = "(%s)" % binds
                    arms.append("%s::%s(%s) => format!(\"%s.%s({})\", vec![%s].join(\",\"))" % (t[1], vn, binds, t[1], vn, parts))
            body = "match v { %s }" % ", ".join(arms)
        else:
            raise ValueError(t)
        self._rs_fns[key] = "#[allow(dead_code, clippy::all)]\nfn %s(v: &%s) -> String { %s }" % (name, ty, body)
        return name

    # ---- Abra: rendering functions
    def ab_show(self, t):
        key = repr(t)
        if not hasattr(self, "_ab_fns"):
            self._ab_fns, self._ab_names = {}, {}
        if key in self._ab_names:
            return self._ab_names[key]
        name = "show_%d" % len(self._ab_names)
        self._ab_names[key] = name
        k = t[0]
        ty = self.ab_type(t)
        if k == "int":
            body = '"" .. v'
        elif k == "float":
            body = '"f8:" .. (v * 8.0).to_int()'
        elif k == "bool":
            body = 'if v { "true" } else { "false" }'
        elif k == "string":
            body = "quote_str(v)"
        elif k == "void":
            body = '"nil"'
        elif k == "array":
            f = self.ab_show(t[1])
            body = '{\n  var s = "["\n  var first = true\n  for x in v {\n    if not first { s = s .. "," }\n    first = false\n    s = s .. %s(x)\n  }\n  s .. "]"\n}' % f
        elif k == "tuple":
            names = ["t%d" % i for i in range(len(t[1]))]
            parts = ' .. "," .. '.join("%s(%s)" % (self.ab_show(x), n) for x, n in zip(t[1], names))
            body = '{\n  let (%s) = v\n  "(" .. %s .. ")"\n}' % (", ".join(names), parts)
        elif k == "option":
            body = '{\n  match v {\n    .some(x) -> "some(" .. %s(x) .. ")"\n    .none -> "none"\n  }\n}' % self.ab_show(t[1])
        elif k == "result":
            body = '{\n  match v {\n    .ok(x) -> "ok(" .. %s(x) .. ")"\n    .err(e) -> "err(" .. %s(e) .. ")"\n  }\n}' % (self.ab_show(t[1]), self.ab_show(t[2]))
        elif k == "struct":
            parts = ' .. "," .. '.join('"%s=" .. %s(v.%s)' % (f, self.ab_show(ft), f) for f, ft in self.structs[t[1]])
            body = '"%s{" .. %s .. "}"' % (t[1], parts)
        elif k == "enum":
            arms = []
            for vn, ts in self.enums[t[1]]:
                if not ts:
                    arms.append('    .%s -> "%s.%s()"' % (vn, t[1], vn))
                else:
                    binds = ", ".join("x%d" % i for i in range(len(ts)))
                    parts = ' .. "," .. '.join("%s(x%d)" % (self.ab_show(x), i) for i, x in enumerate(ts))
                    arms.append('    .%s(%s) -> "%s.%s(" .. %s .. ")"' % (vn, binds, t[1], vn, parts))
            body = "{\n  match v {\n%s\n  }\n}" % "\n".join(arms)
        else:
            raise ValueError(t)
        if body.startswith("{"):
            self._ab_fns[key] = "fn %s(v: %s) -> string %s" % (name, ty, body)
        else:
            self._ab_fns[key] = "fn %s(v: %s) -> string = %s" % (name, ty, body)
        return name


QUOTE_STR = '''fn quote_str(s: string) -> string = host_quote(s)
'''


def gen_batch(r, nfn):
    """-> (files dict, expected dict)"""
    w = World(r)
    w.make_user_types()
    fns = []
    for i in range(nfn):
        name = NAMES[i % len(NAMES)] + ("" if i < len(NAMES) else "x" * (i // len(NAMES)))
        nargs = r.choice([0, 1, 1, 2, 2, 3, 4])
        args = [w.rand_type(r.choice([0, 1, 2, 3]), allow_void=r.chance(10)) for _ in range(nargs)]
        ret = w.rand_type(r.choice([0, 1, 2, 3]), allow_void=r.chance(25))
        calls = []
        for c in range(r.range(2, 3)):
            calls.append(([w.rand_value(t) for t in args], w.rand_value(ret)))
        fns.append((name, args, ret, calls))
    # util.abra
    u = []
    for sname, fields in w.structs.items():
        u.append("#host\ntype %s = {\n%s\n}" % (sname, "\n".join("    %s: %s" % (f, w.ab_type(t)) for f, t in fields)))
    for ename, vs in w.enums.items():
        u.append("#host\ntype %s =\n%s" % (ename, "\n".join("    | %s%s" % (v, "(%s)" % ", ".join(w.ab_type(t) for t in ts) if ts else "") for v, ts in vs)))
    # quoting of strings is done by the host (one more host function, itself part of the test)
    u.append("#host\nfn host_quote(s: string) -> string")
    for name, args, ret, calls in fns:
        u.append("#host\nfn %s(%s) -> %s" % (name, ", ".join("a%d: %s" % (i, w.ab_type(t)) for i, t in enumerate(args)), w.ab_type(ret)))
    util = "\n\n".join(u) + "\n"
    # main.abra
    body = []
    expect_host, expect_abra = [], []
    for name, args, ret, calls in fns:
        for ci, (vals, rv) in enumerate(calls):
            tmp = []
            call = "%s(%s)" % (name, ", ".join(w.ab_value(t, v, tmp) for t, v in zip(args, vals)))
            tmp = [l.replace("tv", "tv_%s%d_" % (name, ci)) for l in tmp]
            call = call.replace("tv", "tv_%s%d_" % (name, ci))
            body += tmp
            if ret[0] == "void":
                body.append(call)
                body.append('println("R %s#%d nil")' % (name, ci))
            else:
                body.append('println("R %s#%d " .. %s(%s))' % (name, ci, w.ab_show(ret), call))
            expect_host.append("H %s#%d (%s)" % (name, ci, ";".join(w.render(t, v) for t, v in zip(args, vals))))
            expect_abra.append("R %s#%d %s" % (name, ci, w.render(ret, rv)))
    shows = "\n".join(getattr(w, "_ab_fns", {}).values())
    main = "use util\n" + QUOTE_STR + shows + "\n" + "\n".join(body) + "\nprintln(\"END\")\n"
    # main.rs
    arms = []
    for name, args, ret, calls in fns:
        camel = name[0].upper() + name[1:]
        binds = ", ".join("a%d" % i for i in range(len(args)))
        pat = "HostFunctionArgs::%s%s" % (camel, "(%s)" % binds if args else "")
        rend = ", ".join("%s(&a%d)" % (w.rs_render(t), i) for i, t in enumerate(args))
        rets = []
        for ci, (vals, rv) in enumerate(calls):
            val = w.rs_value(ret, rv)
            if ret[0] == "void":
                rets.append("%d => HostFunctionRet::%s.into_vm(thread)," % (ci, camel))
            elif ret[0] == "tuple":
                parts = ", ".join(w.rs_value(x, y) for x, y in zip(ret[1], rv))
                rets.append("%d => HostFunctionRet::%s(%s).into_vm(thread)," % (ci, camel, parts))
            else:
                rets.append("%d => HostFunctionRet::%s(%s).into_vm(thread)," % (ci, camel, val))
        arms.append("""            %s => {
                let n = count(counts, "%s");
                let parts: Vec<String> = vec![%s];
                println!("H %s#{} ({})", n, parts.join(";"));
                match n {
                    %s
                    _ => panic!("more calls of %s than scripted"),
                }
            }""" % (pat, name, rend, name, "\n                    ".join(rets), name))
    main_rs = """#![allow(unused_variables, unused_mut, dead_code, unused_parens, clippy::all)]
use std::collections::HashMap;
use std::{error::Error, path::PathBuf};
use abra_core::vm::{Runtime, RuntimeStatusKind};
use abra_core::{OsFileProvider, vm::VmStatus};
use abra_core::vm::AbraInt;
mod generated {
    include!(concat!(env!("OUT_DIR"), "/mod.rs"));
}
use generated::*;

%s

fn count(counts: &mut HashMap<&'static str, usize>, name: &'static str) -> usize {
    let c = counts.entry(name).or_insert(0);
    *c += 1;
    *c - 1
}

fn main() -> Result<(), Box<dyn Error>> {
    let abra_src_dir = PathBuf::from(std::env::var("CARGO_MANIFEST_DIR")?).join("abra_src");
    let file_provider = OsFileProvider::single_dir(abra_src_dir);
    let program = abra_core::compile_bytecode("main.abra", file_provider)?;
    let mut runtime = Runtime::new(program);
    let mut counts: HashMap<&'static str, usize> = HashMap::new();
    let counts = &mut counts;
    loop {
        let status = runtime.run_n_steps(997);
        match status.kind {
            RuntimeStatusKind::Done => break,
            RuntimeStatusKind::OutOfSteps => continue,
            RuntimeStatusKind::MainThreadError(e) => {
                println!("ABRA-ERROR {}", e);
                break;
            }
            RuntimeStatusKind::PendingHostFunc => {}
        }
        for thread in runtime.iter_threads_mut() {
            let VmStatus::PendingHostFunc(i) = thread.status() else { continue };
            let args: HostFunctionArgs = HostFunctionArgs::from_vm(thread, i);
            match args {
                HostFunctionArgs::PrintString(s) => {
                    print!("{}", s);
                    HostFunctionRet::PrintString.into_vm(thread);
                }
                HostFunctionArgs::EprintString(s) => {
                    HostFunctionRet::EprintString.into_vm(thread);
                }
                HostFunctionArgs::Readline => HostFunctionRet::Readline(String::new()).into_vm(thread),
                HostFunctionArgs::GetArgs => HostFunctionRet::GetArgs(vec![]).into_vm(thread),
                HostFunctionArgs::HostQuote(s) => HostFunctionRet::HostQuote(format!("{:?}", s)).into_vm(thread),
%s
            }
        }
    }
    Ok(())
}
""" % (w.rs_render_fns(), "\n".join(arms))
    return {"abra_src/util.abra": util, "abra_src/main.abra": main, "src/main.rs": main_rs, "build.rs": BUILD_RS, "Cargo.toml": CARGO_TOML}, \
        {"host": expect_host, "abra": expect_abra, "nfn": len(fns), "ncalls": len(expect_host)}


def build_and_run(files, tag):
    d = os.path.join(WORKDIR, tag)
    shutil.rmtree(d, ignore_errors=True)
    for rel, text in files.items():
        p = os.path.join(d, rel)
        os.makedirs(os.path.dirname(p), exist_ok=True)
        with open(p, "w", encoding="utf-8") as f:
            f.write(text)
    shutil.copy("/repo/Cargo.lock", os.path.join(d, "Cargo.lock"))
    env = dict(os.environ, CARGO_NET_OFFLINE="true", CARGO_TARGET_DIR=os.path.join(WORKDIR, "target"), RUST_BACKTRACE="0")
    try:
        p = subprocess.run(["cargo", "run", "--offline", "--quiet"], cwd=d, env=env, stdout=subprocess.PIPE, stderr=subprocess.PIPE, timeout=1500)
    except subprocess.TimeoutExpired:
        return None, "", "timeout"
    return p.returncode, p.stdout.decode("utf-8", "replace"), p.stderr.decode("utf-8", "replace")


def judge(exp, rc, out, err):
    """-> list of (class, what)"""
    if rc is None:
        return [("watchdog", "build/run exceeded the watchdog")]
    if rc != 0:
        first = next((l for l in err.split("\n") if l.startswith("error") or "panicked" in l), err.strip().split("\n")[-1] if err.strip() else "")
        cls = "build-or-run-failure:" + ("panic" if "panicked" in err else "compile")
        return [(cls, "cargo run exited with %s: %s\n%s" % (rc, first[:300], err[-1500:]))]
    found = []
    host = [l for l in out.split("\n") if l.startswith("H ")]
    abra = [l for l in out.split("\n") if l.startswith("R ")]
    if "ABRA-ERROR" in out:
        found.append(("abra-error", "the Abra program stopped with a runtime error: %s" % out[out.index("ABRA-ERROR"):][:300]))
    if "END" not in out.split("\n"):
        found.append(("incomplete", "the Abra driver did not reach its end; last lines: %r" % out.split("\n")[-4:]))
    eh = {l.split(" ", 2)[1]: l for l in exp["host"]}
    gh = {l.split(" ", 2)[1]: l for l in host}
    for k, want in eh.items():
        got = gh.get(k)
        if got != want:
            found.append(("arguments", "host received %r, the Abra program passed %r" % (got, want)))
            break
    ea = {l.split(" ", 2)[1]: l for l in exp["abra"]}
    ga = {l.split(" ", 2)[1]: l for l in abra}
    for k, want in ea.items():
        got = ga.get(k)
        if got != want:
            found.append(("results", "Abra received %r, the host returned %r" % (got, want)))
            break
    return found


def run(ctx):
    nb = 2 if ctx.quick else 10
    nfn = 40
    r0 = vlib.Rng(ctx.seed * 6007 + 36)
    total_calls = total_fns = 0
    ok = 0
    kinds = {}
    for b in range(nb):
        files, exp = gen_batch(r0.fork(b), nfn)
        rc, out, err = build_and_run(files, "p%d-b%d" % (os.getpid(), b))
        found = judge(exp, rc, out, err)
        for cls, what in found:
            if cls == "watchdog":
                ctx.inconclusive.append(what)
                continue
            sig = "%s %s batch%d" % (PROP, cls, b)
            ctx.direct.append((sig, what, {"files": files, "expected": exp}))
        total_calls += exp["ncalls"]
        total_fns += exp["nfn"]
        if not found:
            ok += 1
        for rel in ("abra_src/util.abra",):
            for t in ("array<", "option<", "result<", "#host\ntype", "float", "void", "("):
                kinds[t] = kinds.get(t, 0) + files[rel].count(t)
        shutil.rmtree(os.path.join(WORKDIR, "p%d-b%d" % (os.getpid(), b)), ignore_errors=True)
    ctx.coverage(
        evaluations=total_calls,
        distinct_nontrivial=total_calls,
        rule="evaluation = one host-function call made by the generated driver (argument rendering on the host side and result rendering "
             "on the Abra side are both compared with the generator's values); each call has its own random values; batches of %d generated signatures are compiled into one crate" % nfn,
        samples=[{"util.abra": files["abra_src/util.abra"][:1500]}],
        signatures=total_fns,
        batches_confirmed=ok,
        type_constructors_in_signatures=kinds,
    )
    ctx.need(ok == nb or bool(ctx.direct), "only %d of %d batches completed" % (ok, nb))


def replay(ctx, rep):
    rc, out, err = build_and_run(rep["job"]["files"], "replay")
    print(out[-3000:])
    print(err[-3000:])
    print(judge(rep["job"]["expected"], rc, out, err))
