"""C08 A task works on its own copies of the values it captures.

Reference = deep copy at spawn: generated programs capture 2-4 values of different kinds (ints,
bools, heap strings, arrays, nested arrays, string arrays, tuples holding arrays, structs with
nested structs, enum values with array payloads, options, closures that captured an array) in a
task, optionally again in a task started inside that task. The spawning code mutates before the
spawn (must be visible in the copy), after the spawn and after the task has reported (must not
be visible on the other side); the task mutates its copies in two phases separated by a
handshake and reports renderings through channels; reassigned `var`s keep their spawn-time value
inside the task. Every rendering is determined by the model, so the whole output is compared.
Runs: step budgets 1..1000 and random, default/random/scripted collection pacing, with reclaimed
objects quarantined (a copy that still aliased the parent's object would be caught when the
parent side collects it)."""
import vlib
from checks import concgen

LEVEL = "exploration"
PROP = "C08"

KERNELS = {
    "book-example": ("""let numbers = [1, 2, 3]
let done: channel<int> = channel()
task {
    numbers.push(4)
    done.write(numbers.len())
}
println(numbers.len())
println(done.read())
println(numbers)
""", "3\n4\n[ 1, 2, 3 ]\n"),
    "captured-channel-is-shared": ("""let c: channel<int> = channel()
let d: channel<int> = channel()
let box = [c]
task {
  box[0].write(5)
  d.write(box.len())
}
println(c.read())
println(d.read())
""", "5\n1\n"),
    "enum-payload-struct": ("""type Rec = {
  n: int
  xs: array<int>
}
type Ev =
  | Data(int, Rec)
  | Stop
let r = Rec(1, [1])
let e = Ev.Data(7, r)
let out: channel<string> = channel()
let go: channel<int> = channel()
task {
  go.read()
  match e {
    .Data(k, rr) -> out.write(k .. ":" .. rr.n .. ":" .. rr.xs),
    .Stop -> out.write("stop"),
  }
}
r.n = 666
r.xs.push(666)
go.write(1)
println(out.read())
""", "7:1:[ 1 ]\n"),
    "parent-drops-and-collects": ("""let out: channel<string> = channel()
let go: channel<int> = channel()
fn spawn_with_local(go: channel<int>, out: channel<string>) {
  let big = ["a" .. 1, "b" .. 2, "c" .. 3]
  task {
    go.read()
    out.write("" .. big)
  }
}
spawn_with_local(go, out)
for i in 300 { let junk = ["j" .. i, "k" .. i] }
go.write(1)
println(out.read())
""", "[ a1, b2, c3 ]\n"),
}


def run_specs(seed, quick):
    r = vlib.Rng(seed)
    specs = []
    for k in ([1, 2, 3, 7, 64, 100] if quick else [1, 2, 3, 4, 5, 7, 8, 13, 16, 31, 64, 100, 1000]):
        specs.append({"budget": {"k": k}})
    for i in range(1 if quick else 6):
        specs.append({"budget": {"rand": {"seed": r.next() >> 1, "max": r.choice([2, 3, 9, 33])}}})
    for i in range(2 if quick else 8):
        specs.append({"budget": {"k": r.choice([1, 3, 7, 100])},
                      "gc": {"plan": "random", "seed": r.next() >> 1, "pm": r.choice([20, 80, 300, 1000]), "max": r.choice([1, 8, 64, 100000])}})
    for i in range(1 if quick else 6):
        st = r.range(5, 300)
        specs.append({"budget": {"k": r.choice([1, 7, 100])},
                      "gc": {"plan": "scripted", "start": [st + 30 * j for j in range(40)], "mark": r.choice([1, "max"]), "sweep": r.choice([1, "max"])}})
    for s in specs:
        s["quarantine"] = True
        s["max_steps"] = 1500000
    return specs


def judge_prog(p, res, specs):
    cr = vlib.crash_of(res)
    if cr:
        return [("abort", cr[1])]
    if not res.get("compile", {}).get("ok"):
        c = res.get("compile", {})
        return [("nocompile", "generated program did not compile: %s" % (c.get("panic") or c.get("errors", "")[:300]))]
    out = []
    for spec, run in zip(specs, res["runs"]):
        sched = {k: spec[k] for k in ("budget", "gc") if k in spec}
        st = run.get("status")
        if run.get("viol"):
            v = run["viol"][0]
            out.append(("monitor:%s@%s" % (v["kind"], v["site"]), "monitor %s at %s under %s" % (v["kind"], v["site"], sched)))
        elif st == "panic":
            out.append((vlib.panic_sig(run.get("panic")), "internal fault %s under %s" % (run.get("panic"), sched)))
        elif st == "error":
            out.append(("error", "runtime error %r under %s" % ((run.get("err") or "")[:200], sched)))
        elif st == "cap":
            continue
        elif st == "done":
            if run.get("output") != p["expect"]:
                got, exp = (run.get("output") or "").split("\n"), p["expect"].split("\n")
                diff = [(g, e) for g, e in zip(got, exp) if g != e][:3] or [("<%d lines>" % len(got), "<%d lines>" % len(exp))]
                out.append(("isolation", "observed vs deep-copy model (first differing lines): %r under %s" % (diff, sched)))
        else:
            out.append(("status:%s" % st, "run ended with status %s under %s" % (st, sched)))
    seen, uniq = set(), []
    for c, w in out:
        if c not in seen:
            seen.add(c)
            uniq.append((c, w))
    return uniq


def run(ctx):
    n = 500 if ctx.quick else 10000
    progs = [concgen.gen_capture(vlib.Rng(ctx.seed * 77 + 8).fork(i)) for i in range(n)]
    for name, (src, exp) in KERNELS.items():
        progs.append({"src": src, "expect": exp, "kinds": [], "nmut": 0, "inner": False, "closure": False, "kernel": name})
    jobs = []
    for i, p in enumerate(progs):
        jobs.append({"id": "p%05d" % i, "files": {"main.abra": p["src"]}, "runs": run_specs(ctx.seed * 1000003 + i, ctx.quick)})
    results = ctx.run(jobs)
    evals = 0
    distinct = set()
    kinds = {}
    feats = {"nested_task": 0, "closure": 0, "mutations": 0, "kernels": 0}
    gc = {"completed": 0, "swept": 0, "parked": 0, "live_checks": 0}
    for p, job in zip(progs, jobs):
        res = results[job["id"]]
        name = p.get("kernel") or ("gen:%s" % vlib.hhex(p["src"])[:10])
        for cls, what in judge_prog(p, res, job["runs"]):
            sig = "%s %s %s" % (PROP, name, cls)
            ctx.candidate(sig, what + "\n--- program ---\n" + p["src"], job,
                          lambda r, p=p, job=job, sig=sig, cls=cls: [(sig, w) for c, w in judge_prog(p, r, job["runs"]) if c == cls])
        if not res.get("compile", {}).get("ok"):
            continue
        runs = res.get("runs", [])
        evals += len(runs)
        if any(x.get("status") == "done" for x in runs):
            distinct.add(name)
            for k in p["kinds"]:
                kinds[k] = kinds.get(k, 0) + 1
            feats["nested_task"] += bool(p["inner"])
            feats["closure"] += bool(p["closure"])
            feats["mutations"] += p["nmut"]
            feats["kernels"] += bool(p.get("kernel"))
        for x in runs:
            for k in gc:
                gc[k] += (x.get("gc") or {}).get(k, 0)
    asan = {"runs": 0, "reports": 0}
    if not ctx.quick:
        ajobs = []
        sel = progs[:160] + progs[-len(KERNELS):]
        for i, p in enumerate(sel):
            specs = [dict(s2) for s2 in run_specs(ctx.seed * 5 + i, True)]
            for s2 in specs:
                s2.pop("quarantine", None)
            ajobs.append({"id": "asan%04d" % i, "files": {"main.abra": p["src"]}, "runs": specs})
        ares, asan["runs"], asan["reports"] = vlib.asan_slice(ctx, ajobs, "asan-capture")
        for p, j in zip(sel, ajobs):
            res = ares.get(j["id"], {})
            if res.get("compile", {}).get("ok") and "crash" not in res:
                for cls, what in judge_prog(p, res, j["runs"]):
                    if cls == "isolation":
                        ctx.direct.append(("%s asan-build %s isolation" % (PROP, vlib.hhex(p["src"])[:10]), what + "\n--- program ---\n" + p["src"], dict(j, asan=True)))
    ctx.coverage(
        asan_build=asan,
        evaluations=evals + asan["runs"],
        distinct_nontrivial=len(distinct),
        rule="evaluation = one execution of a capture program under one (budget plan, collection plan) with the quarantine monitor on; "
             "distinct = programs with at least one completed run whose whole output was compared with the deep-copy-at-spawn model",
        samples=[{"program": progs[0]["src"], "expected_output": progs[0]["expect"]}],
        captured_kinds=dict(sorted(kinds.items())),
        features=feats,
        gc=gc,
        plans_per_program=len(run_specs(1, ctx.quick)),
    )
    ctx.need(len(distinct) >= 200, "fewer than 200 programs completed")
    ctx.need(feats["mutations"] >= 500 and feats["nested_task"] >= 30 and feats["closure"] >= 30, "too few mutations / nested tasks / closures: %s" % feats)
    ctx.need(gc["completed"] > 50, "too few collection cycles observed: %s" % gc)


def replay(ctx, rep):
    res = ctx.ex.run_alone(rep["job"])
    print(__import__("json").dumps(res)[:3000])
