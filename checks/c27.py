"""C27 core/map and core/set behave like a dictionary and a set.

Oracle: python dict / set. Every operation prints its observable result; the run ends with a
dump (try_get / contains for every key of the domain, and len). Key domains: boundary integers,
strings, tuples and user structs whose Hash forces collisions (id % 2, a constant, the minimum
integer). Sequences are long enough (<= 80 operations) for the 4->8->16->32 resizes and for
free-list slot reuse; the evidence counts how many sequences crossed each of them."""
from checks.abra import strlit, intlit
from checks.common import Case, run_cases

LEVEL = "exploration"
MIN, MAX = -(1 << 63), (1 << 63) - 1

DOMAINS = {
    "int": dict(ann="int", keys=[MIN, MIN + 1, -1, 0, 1, 2, 3, 4, 5, 8, 16, 17, 33, MAX, MAX - 1, 1 << 32, -(1 << 32)], lit=intlit, decl=""),
    "string": dict(ann="string", keys=["", "a", "b", "ab", "ba", "é", "€", "key1", "key2", "a b", "0"], lit=strlit, decl=""),
    "tuple": dict(ann="(int, string)", keys=[(0, ""), (0, "a"), (1, ""), (1, "a"), (-1, "z"), (MIN, "m")],
                  lit=lambda k: "(%s, %s)" % (intlit(k[0]), strlit(k[1])), decl=""),
    "mod2": dict(ann="Km", keys=list(range(0, 9)) + [-1, -2], lit=lambda k: "Km(%s)" % intlit(k),
                 decl="type Km = {\n  id: int\n}\nimplement Hash for Km {\n  fn hash(k) = k.id % 2\n}\nimplement Equal for Km {\n  fn equal(a, b) = a.id == b.id\n}\n"),
    "const": dict(ann="Kc", keys=list(range(0, 7)), lit=lambda k: "Kc(%s)" % intlit(k),
                  decl="type Kc = {\n  id: int\n}\nimplement Hash for Kc {\n  fn hash(k) = 7\n}\nimplement Equal for Kc {\n  fn equal(a, b) = a.id == b.id\n}\n"),
    "minhash": dict(ann="Kn", keys=list(range(0, 6)), lit=lambda k: "Kn(%s)" % intlit(k),
                    decl="type Kn = {\n  id: int\n}\nimplement Hash for Kn {\n  fn hash(k) = -9223372036854775808\n}\nimplement Equal for Kn {\n  fn equal(a, b) = a.id == b.id\n}\n"),
    "neghash": dict(ann="Kg", keys=list(range(0, 8)), lit=lambda k: "Kg(%s)" % intlit(k),
                    decl="type Kg = {\n  id: int\n}\nimplement Hash for Kg {\n  fn hash(k) = 0 - k.id * 3 - 1\n}\nimplement Equal for Kg {\n  fn equal(a, b) = a.id == b.id\n}\n"),
}


def map_case(r, dname, n_ops, name):
    d = DOMAINS[dname]
    keys, lit = d["keys"], d["lit"]
    body = ["let m: map<%s, int> = map.new()" % d["ann"]]
    model = {}
    out = []
    max_entries = 0
    removed_then_inserted = False
    removed_any = False
    err = None
    for i in range(n_ops):
        k = r.choice(keys)
        kk = lit(k)
        op = r.below(100)
        if op < 38:
            v = r.range(-5, 99)
            if r.chance(50):
                body.append("m.insert(%s, %d)" % (kk, v))
            else:
                body.append("m[%s] = %d" % (kk, v))
            if k not in model and removed_any:
                removed_then_inserted = True
            model[k] = v
        elif op < 52:
            body.append('println("t" .. match m.try_get(%s) { .some(v) -> v, .none -> 0 - 777 })' % kk)
            out.append("t%d\n" % model.get(k, -777))
        elif op < 62:
            if k in model or r.chance(85):
                if k not in model:
                    continue
                body.append('println("g" .. m%s)' % ("[%s]" % kk if r.chance(50) else ".get(%s)" % kk))
                out.append("g%d\n" % model[k])
            else:
                body.append('println("g" .. m.get(%s))' % kk)
                err = ("panic", "cannot unwrap option.none")
                break
        elif op < 74:
            body.append('println("c" .. m.contains(%s))' % kk)
            out.append("c%s\n" % ("true" if k in model else "false"))
        elif op < 92:
            body.append('println("r" .. m.remove(%s))' % kk)
            out.append("r%s\n" % ("true" if k in model else "false"))
            if k in model:
                removed_any = True
                del model[k]
        else:
            body.append('println("l" .. m.len())')
            out.append("l%d\n" % len(model))
        max_entries = max(max_entries, len(model))
    if err is None:
        body.append('println("L" .. m.len())')
        out.append("L%d\n" % len(model))
        for k in keys:
            body.append('println(match m.try_get(%s) { .some(v) -> v, .none -> 0 - 777 })' % lit(k))
            out.append("%d\n" % model.get(k, -777))
        exp = ("out", "".join(out))
    else:
        text = "".join(out)

        def exp(obs, text=text, err=err):
            if obs[0] != "err" or obs[1] != err[0] or obs[2] != err[1]:
                return "expected panic `%s` after %r, observed %r" % (err[1], text[-60:], obs[:3])
            if obs[3] != text:
                return "output before the expected panic differs: %r vs %r" % (text[-100:], obs[3][-100:])
            return None
    c = Case("map %s #%s ops=%d" % (dname, name, n_ops), "\n".join(body), exp, d["decl"])
    c.meta = (max_entries, removed_then_inserted)
    return c


def set_case(r, dname, n_ops, name):
    d = DOMAINS[dname]
    keys, lit = d["keys"], d["lit"]
    body = ["let s: set<%s> = set.new()" % d["ann"]]
    model = set()
    out = []
    for i in range(n_ops):
        k = r.choice(keys)
        kk = lit(k)
        op = r.below(100)
        if op < 45:
            body.append("s.insert(%s)" % kk)
            model.add(k)
        elif op < 65:
            body.append('println("c" .. s.contains(%s))' % kk)
            out.append("c%s\n" % ("true" if k in model else "false"))
        elif op < 88:
            body.append('println("r" .. s.remove(%s))' % kk)
            out.append("r%s\n" % ("true" if k in model else "false"))
            model.discard(k)
        else:
            body.append('println("l" .. s.len())')
            out.append("l%d\n" % len(model))
    body.append('println("L" .. s.len())')
    out.append("L%d\n" % len(model))
    for k in keys:
        body.append('println(s.contains(%s))' % lit(k))
        out.append("%s\n" % ("true" if k in model else "false"))
    c = Case("set %s #%s ops=%d" % (dname, name, n_ops), "\n".join(body), ("out", "".join(out)), d["decl"])
    c.meta = (len(model), False)
    return c


def run(ctx):
    r = ctx.rng.fork("c27")
    cases = []
    nseq = 40 if ctx.quick else 700
    for dname in DOMAINS:
        for i in range(nseq):
            n_ops = r.choice([6, 12, 25, 40, 60, 80])
            cases.append(map_case(r, dname, n_ops, i))
        for i in range(nseq // 4):
            cases.append(set_case(r, dname, r.choice([10, 30, 60]), i))
    # deterministic growth cases: insert many distinct keys (resizes), remove half, insert again (slot reuse)
    body = ["let m: map<int, int> = map.new()"]
    out = []
    model = {}
    for i in range(40):
        body.append("m.insert(%d, %d)" % (i * 7 - 60, i))
        model[i * 7 - 60] = i
    for i in range(0, 40, 2):
        body.append('println(m.remove(%d))' % (i * 7 - 60))
        out.append("true\n")
        del model[i * 7 - 60]
    for i in range(100, 130):
        body.append("m[%d] = %d" % (i, i))
        model[i] = i
    body.append("println(m.len())")
    out.append("%d\n" % len(model))
    for k in sorted(model):
        body.append("println(m[%d])" % k)
        out.append("%d\n" % model[k])
    cases.append(Case("map growth and slot reuse", "\n".join(body), ("out", "".join(out)), ""))
    cases[-1].meta = (50, True)
    nruns, observed, failures = run_cases(ctx, "c27", cases, lambda c: "C27 " + c.key, per_prog=12, std=True, extra_decls="use core/map\nuse core/set\n")
    stats = {"resize_to_8": 0, "resize_to_16": 0, "resize_to_32": 0, "slot_reuse": 0}
    for c in cases:
        me, reuse = c.meta
        if me > 4:
            stats["resize_to_8"] += 1
        if me > 8:
            stats["resize_to_16"] += 1
        if me > 16:
            stats["resize_to_32"] += 1
        if reuse:
            stats["slot_reuse"] += 1
    ctx.coverage(
        evaluations=nruns,
        distinct_nontrivial=len(observed),
        rule="case = one operation sequence (6..80 operations: insert, index set, try_get, get/index get, contains, remove, len) over "
             "one key domain, followed by a dump of every key; distinct = distinct sequences compared with the python dict/set model; "
             "`inferred` counts how many sequences grew past each table size / re-inserted after a removal (slot reuse)",
        samples=[{"case": cases[0].key, "program": cases[0].body[:600]}],
        inferred=stats,
        domains=list(DOMAINS),
        failures=failures[:20],
    )
    ctx.need(len(observed) >= 0.98 * len({c.key for c in cases}), "only %d of %d cases observed" % (len(observed), len(cases)))
    ctx.need(stats["resize_to_16"] > 0 and stats["slot_reuse"] > 0, "no sequence reached a resize to 16 / a slot reuse: %s" % stats)


def replay(ctx, rep):
    res = ctx.ex.run_alone(rep["job"])
    print(__import__("json").dumps(res)[:3000])
