"""Scope-structured programs with a resolution model (C21 nested scopes, C35).

Names come from a tiny pool so that shadowing is everywhere; every binding holds a value that is
unique in the program, so printing a name shows which declaration the COMPILER resolved it to,
and the model knows which declaration every use must refer to (innermost visible binding). The
emitter records the byte offset of every declaration name and every use."""
NAMES = ["a", "b", "c", "dd"]


class Decl:
    __slots__ = ("name", "ty", "lo", "hi", "val", "kind")

    def __init__(self, name, ty, val, kind):
        self.name, self.ty, self.val, self.kind = name, ty, val, kind
        self.lo = self.hi = -1


TYPES = ["int", "int", "int", "string", "tuple", "array", "bool"]
TYPE_STR = {"int": "int", "string": "string", "tuple": "(int, bool)", "array": "array<int>", "bool": "bool", "fn": "fn(int) -> int"}


class ScopeGen:
    def __init__(self, r, nonascii=True, plant_unresolved=False):
        self.r = r
        self.plant = plant_unresolved
        self.planted = None     # (lo, hi, name): a use of a name that is NOT visible there
        self.out = []          # pieces of text
        self.pos = 0           # byte position
        self.uid = 100
        self.uses = []         # (lo, hi, decl, expected printed text or None)
        self.decls = []
        self.expect_out = []   # printed lines in execution order
        self.scopes = [{}]     # name -> Decl
        self.nonascii = nonascii
        self.fuel = r.range(12, 40)
        self.fn_n = 0
        self.features = set()

    # -- text
    def w(self, s):
        self.out.append(s)
        self.pos += len(s.encode("utf-8"))

    def fresh_val(self, ty):
        self.uid += 1
        u = self.uid
        if ty == "int":
            return str(u), str(u)
        if ty == "string":
            return '"s%d"' % u, "s%d" % u
        if ty == "tuple":
            return "(%d, true)" % u, "(%d, true)" % u
        if ty == "array":
            return "[%d, %d]" % (u, u + 1000), "[ %d, %d ]" % (u, u + 1000)
        if ty == "bool":
            return ("true", "true") if u % 2 else ("false", "false")
        raise ValueError(ty)

    def lookup(self, name):
        for sc in reversed(self.scopes):
            if name in sc:
                return sc[name]
        return None

    def visible_names(self):
        seen = {}
        for sc in self.scopes:
            for n, d in sc.items():
                seen[n] = d
        return seen

    def declare_here(self, d):
        self.scopes[-1][d.name] = d
        self.decls.append(d)

    def emit_decl_name(self, d):
        d.lo = self.pos
        self.w(d.name)
        d.hi = self.pos

    def emit_use(self, name, ind, live):
        """`println(name)`; records the use. `live` = the statement really executes once"""
        d = self.lookup(name)
        if d is None:
            return False
        self.w(ind + "println(")
        lo = self.pos
        self.w(name)
        hi = self.pos
        self.w(")\n")
        printed = d.val if d.kind != "fn" else None
        self.uses.append((lo, hi, d, printed))
        if live:
            self.expect_out.append(d.val)
        return True

    def comment(self, ind):
        if self.nonascii and self.r.chance(25):
            self.w(ind + "// " + self.r.choice(["é€", "日本語 a", "🙂 b", "plain c", "a b c dd"]) + "\n")

    # -- statements
    def stmts(self, ind, depth, live, n=None):
        r = self.r
        n = n if n is not None else r.range(2, 5)
        for _ in range(n):
            if self.fuel <= 0:
                break
            self.fuel -= 1
            self.comment(ind)
            if self.plant and self.planted is None and r.chance(12):
                hidden = [n for n in NAMES if self.lookup(n) is None]
                if hidden:
                    name = r.choice(hidden)
                    self.w(ind + "println(")
                    lo = self.pos
                    self.w(name)
                    self.planted = (lo, self.pos, name)
                    self.w(")\n")
            k = r.below(100)
            vis = [n for n, d in self.visible_names().items() if d.kind != "fn"]
            if k < 30:
                self.let_stmt(ind)
            elif k < 52 and vis:
                self.emit_use(r.choice(vis), ind, live)
            elif k < 60 and depth < 4:
                self.features.add("if-block")
                self.w(ind + "if true {\n")
                self.scopes.append({})
                self.stmts(ind + "  ", depth + 1, live)
                self.scopes.pop()
                if r.chance(40):
                    self.w(ind + "} else {\n")
                    self.scopes.append({})
                    self.stmts(ind + "  ", depth + 1, False)
                    self.scopes.pop()
                self.w(ind + "}\n")
            elif k < 68 and depth < 4:
                self.for_stmt(ind, depth, live)
            elif k < 75 and depth < 4:
                self.match_stmt(ind, depth, live)
            elif k < 82 and depth < 4:
                self.block_let(ind, depth, live)
            elif k < 89 and depth < 3:
                self.lambda_stmt(ind, depth, live)
            elif k < 93 and depth < 4:
                self.features.add("while")
                wv = "w%d" % self.uid
                self.uid += 1
                self.w("%svar %s = 0\n%swhile %s < 1 {\n%s  %s = %s + 1\n" % (ind, wv, ind, wv, ind, wv, wv))
                self.scopes.append({})
                self.stmts(ind + "  ", depth + 1, live)
                self.scopes.pop()
                self.w(ind + "}\n")
            elif k < 97:
                self.destructure(ind)
            elif vis:
                self.emit_use(r.choice(vis), ind, live)

    def let_stmt(self, ind):
        r = self.r
        name = r.choice(NAMES)
        ty = r.choice(TYPES)
        src, val = self.fresh_val(ty)
        d = Decl(name, ty, val, "let")
        kw = "var" if r.chance(25) else "let"
        # the initialiser may use the PREVIOUS binding of the same name (it is not yet shadowed there)
        prev = self.lookup(name)
        self.w("%s%s " % (ind, kw))
        self.emit_decl_name(d)
        if r.chance(30):
            self.w(": " + TYPE_STR[ty])
        if prev is not None and prev.ty == "int" and ty == "int" and prev.val.isdigit() and r.chance(35):
            self.features.add("initialiser-uses-shadowed-name")
            self.w(" = ")
            lo = self.pos
            self.w(name)
            hi = self.pos
            self.uses.append((lo, hi, prev, None))
            self.w(" - %s + %s\n" % (prev.val, src))
        else:
            self.w(" = %s\n" % src)
        if self.lookup(name) is not None:
            self.features.add("shadowing")
        self.declare_here(d)

    def destructure(self, ind):
        r = self.r
        n1, n2 = r.sample(NAMES, 2)
        s1, v1 = self.fresh_val("int")
        s2, v2 = self.fresh_val("string")
        d1, d2 = Decl(n1, "int", v1, "let"), Decl(n2, "string", v2, "let")
        self.w(ind + "let (")
        self.emit_decl_name(d1)
        self.w(", ")
        self.emit_decl_name(d2)
        self.w(") = (%s, %s)\n" % (s1, s2))
        self.declare_here(d1)
        self.declare_here(d2)
        self.features.add("destructuring-let")

    def for_stmt(self, ind, depth, live):
        r = self.r
        name = r.choice(NAMES)
        # half of the time the loop variable shadows a visible int that the iterable itself uses:
        # inside the iterable the name still means the enclosing binding
        outer_ints = [n for n, x in self.visible_names().items() if x.kind != "fn" and x.ty == "int" and x.val.isdigit()]
        if outer_ints and r.chance(50):
            name = r.choice(outer_ints)
        prev = self.lookup(name)
        s1, v1 = self.fresh_val("int")
        d = Decl(name, "int", v1, "for")
        self.w(ind + "for ")
        self.emit_decl_name(d)
        if prev is not None and prev.kind != "fn" and prev.ty == "int" and prev.val.isdigit() and r.chance(70):
            self.features.add("iterable-uses-shadowed-name")
            self.w(" in [")
            lo = self.pos
            self.w(name)
            self.uses.append((lo, self.pos, prev, None))
            self.w(" - %s + %s] {\n" % (prev.val, s1))
        else:
            self.w(" in [%s] {\n" % s1)
        self.scopes.append({name: d})
        self.decls.append(d)
        self.scopes.append({})
        self.stmts(ind + "  ", depth + 1, live)
        self.scopes.pop()
        self.scopes.pop()
        self.w(ind + "}\n")
        self.features.add("for-variable")

    def match_stmt(self, ind, depth, live):
        r = self.r
        n1, n2 = r.sample(NAMES, 2)
        s1, v1 = self.fresh_val("int")
        s2, v2 = self.fresh_val("int")
        prev = self.lookup(n2)
        if prev is not None and prev.kind != "fn" and prev.ty == "int" and prev.val.isdigit() and r.chance(60):
            # the scrutinee uses a name that the matching arm rebinds: there it is the enclosing binding
            self.features.add("scrutinee-uses-shadowed-name")
            self.w("%smatch (" % ind)
            lo = self.pos
            self.w(n2)
            self.uses.append((lo, self.pos, prev, None))
            self.w(" - %s + %s, %s) {\n" % (prev.val, s1, s2))
        else:
            self.w("%smatch (%s, %s) {\n" % (ind, s1, s2))
        # first arm binds n1 but never matches (literal 0 in second position); later arms must not see n1
        d0 = Decl(n1, "int", "<unreachable>", "match")
        self.w(ind + "  (")
        self.emit_decl_name(d0)
        self.w(", 0) -> {\n")
        self.scopes.append({n1: d0})
        self.decls.append(d0)
        self.stmts(ind + "    ", depth + 1, False, n=r.range(1, 2))
        self.scopes.pop()
        self.w(ind + "  }\n")
        da, db = Decl(n2, "int", v1, "match"), Decl(n1 if r.chance(50) else [x for x in NAMES if x not in (n1, n2)][0], "int", v2, "match")
        self.w(ind + "  (")
        self.emit_decl_name(da)
        self.w(", ")
        self.emit_decl_name(db)
        self.w(") -> {\n")
        self.scopes.append({da.name: da, db.name: db})
        self.decls += [da, db]
        self.stmts(ind + "    ", depth + 1, live)
        self.scopes.pop()
        self.w(ind + "  }\n")
        self.w(ind + "}\n")
        self.features.add("match-arm-bindings")

    def block_let(self, ind, depth, live):
        r = self.r
        name = r.choice(NAMES)
        src, val = self.fresh_val("int")
        d = Decl(name, "int", val, "let")
        self.w(ind + "let ")
        self.emit_decl_name(d)
        self.w(" = {\n")
        self.scopes.append({})
        self.stmts(ind + "  ", depth + 1, live)
        self.scopes.pop()
        self.w("%s  %s\n%s}\n" % (ind, src, ind))
        self.declare_here(d)
        self.features.add("block-expression")

    def lambda_stmt(self, ind, depth, live):
        r = self.r
        self.fn_n += 1
        fname = "ff%d" % self.fn_n
        pname = r.choice(NAMES)
        s1, v1 = self.fresh_val("int")
        df = Decl(fname, "fn", None, "fn")
        dp = Decl(pname, "int", v1, "param")
        self.w(ind + "let ")
        self.emit_decl_name(df)
        self.w(" = (")
        self.emit_decl_name(dp)
        self.w(": int) -> {\n")
        self.scopes.append({pname: dp})
        self.decls.append(dp)
        self.scopes.append({})
        self.stmts(ind + "  ", depth + 1, live)
        self.scopes.pop()
        self.scopes.pop()
        self.w("%s  0\n%s}\n" % (ind, ind))
        self.declare_here(df)
        # one call, so the body executes once
        self.w(ind + "let zz%d = " % self.fn_n)
        lo = self.pos
        self.w(fname)
        hi = self.pos
        self.uses.append((lo, hi, df, None))
        self.w("(%s)\n" % s1)
        self.features.add("lambda-parameter")

    def top_fn(self):
        """a named function: sees its parameters, its locals and the globals declared so far"""
        r = self.r
        self.fn_n += 1
        fname = "gg%d" % self.fn_n
        pname = r.choice(NAMES)
        s1, v1 = self.fresh_val("int")
        df = Decl(fname, "fn", None, "fn")
        dp = Decl(pname, "int", v1, "param")
        self.w("fn ")
        self.emit_decl_name(df)
        self.w("(")
        self.emit_decl_name(dp)
        self.w(": int) -> int {\n")
        saved = self.scopes
        self.scopes = [{}, {pname: dp}, {}]   # only parameters and locals (globals may be redeclared later)
        self.decls.append(dp)
        # the body runs when called below; its prints come right then
        mark = len(self.expect_out)
        self.stmts("  ", 1, True)
        body_out = self.expect_out[mark:]
        del self.expect_out[mark:]
        self.scopes = saved
        self.w("  0\n}\n")
        self.declare_here(df)
        self.w("let yy%d = " % self.fn_n)
        lo = self.pos
        self.w(fname)
        hi = self.pos
        self.uses.append((lo, hi, df, None))
        self.w("(%s)\n" % s1)
        self.expect_out += body_out
        self.features.add("named-function")

    def gen(self):
        r = self.r
        for _ in range(r.range(3, 7)):
            if self.fuel <= 0:
                break
            if r.chance(25):
                self.top_fn()
            else:
                self.stmts("", 0, True, n=r.range(1, 3))
        # make sure something is used
        vis = [n for n, d in self.visible_names().items() if d.kind != "fn"]
        for n in vis[:2]:
            self.emit_use(n, "", True)
        src = "".join(self.out)
        return {"src": src, "planted": self.planted, "uses": self.uses, "decls": self.decls, "expect": "".join(x + "\n" for x in self.expect_out),
                "features": sorted(self.features)}
