"""Shared driver of the match-universe checks C12 (exhaustiveness), C13 (redundancy), C14 (arm
selection and bindings)."""
import vlib
from checks import matchuni as mu
from checks.common import Case, make_jobs, observe, single_program

NE_MSG = "This match expression doesn't cover every case"
RD_MSG = "This match expression has redundant cases"


def check_file_job(jid, decls, ms):
    src, spans = mu.emit_check(decls, ms)
    return {"id": jid, "mode": "lsp", "files": {"main.abra": src}}, spans


def verdicts(res, ms, spans):
    """-> (per-match dict(ne, witnesses, redundant) or None when the file had other errors, other_msgs)"""
    l = res.get("lsp", {})
    if "panic" in l:
        return None, ["panic: %s" % l["panic"]]
    diags = l.get("diags", [])
    other = [d["message"] for d in diags if d["message"] not in (NE_MSG, RD_MSG)]
    if other:
        return None, other
    byspan = {(lo, hi): i for i, (lo, hi, _a) in enumerate(spans)}
    out = [dict(ne=False, witnesses=[], redundant=[]) for _ in ms]
    stray = []
    for d in diags:
        key = (d["lo"], d["hi"])
        if key not in byspan:
            # find the enclosing span
            cand = [i for i, (lo, hi, _a) in enumerate(spans) if lo <= d["lo"] and d["hi"] <= hi + 1]
            if len(cand) != 1:
                stray.append("diagnostic range %s matches no generated match" % (key,))
                continue
            i = cand[0]
        else:
            i = byspan[key]
        if d["message"] == NE_MSG:
            out[i]["ne"] = True
            out[i]["witnesses"] = [n.strip().strip("`").strip() for n in d["notes"][1:]]
            out[i]["witnesses"] = [w.split("`")[0] if w.endswith("`") else w for w in out[i]["witnesses"]]
            out[i]["witnesses"] = [n.replace("\t", "").replace("\n", "").strip("`") for n in d["notes"][1:]]
        else:
            arms = spans[i][2]
            for lab in d["labels"][1:]:
                hit = [k for k, (alo, ahi) in enumerate(arms) if alo == lab[1] and ahi == lab[2]]
                if hit:
                    out[i]["redundant"].append(hit[0])
                else:
                    stray.append("redundant-arm label %s matches no arm of match %d" % (lab[1:3], ms[i].idx))
    return out, stray


def analyse(ctx, decls, ms, per_file=120):
    """run the checker over all matches; -> {idx: verdict}, stats"""
    verd = {}
    problems = []
    work = [ms[n:n + per_file] for n in range(0, len(ms), per_file)]
    rounds = 0
    while work and rounds < 8:
        rounds += 1
        jobs, info = [], {}
        for n, chunk in enumerate(work):
            job, spans = check_file_job("mf%02d-%05d" % (rounds, n), decls, chunk)
            jobs.append(job)
            info[job["id"]] = (chunk, spans)
        results = ctx.run(jobs)
        nxt = []
        for job in jobs:
            chunk, spans = info[job["id"]]
            res = results[job["id"]]
            cr = vlib.crash_of(res)
            v, other = (None, [cr[1]]) if cr else verdicts(res, chunk, spans)
            if v is None:
                if len(chunk) == 1:
                    problems.append((chunk[0], other))
                else:
                    h = len(chunk) // 2
                    nxt += [chunk[:h], chunk[h:]]
                continue
            for m, x in zip(chunk, v):
                verd[m.idx] = x
            for s in other:
                problems.append((None, [s]))
        work = nxt
    return verd, problems


def runtime_cases(ms):
    cases = []
    for m in ms:
        exp = mu.expected_run_output(m)
        body = "\n".join("mm(%s)" % mu.vexpr(m.t, v) for v in mu.values(m.t))
        cases.append(Case(m.key(), body, ("out", "".join(exp)), decls=None, meta=m))
    return cases
