"""Case-dispatch programs: many small observation cases compiled into one Abra program, each
executed in its own fresh runtime (the case number arrives through a program-declared
`#host fn`), so an expected runtime error of one case cannot hide another case."""
import vlib

PROLOG = "#host\nfn verif_next_case() -> int\n\n"


class Case:
    __slots__ = ("key", "body", "expect", "decls", "meta")

    def __init__(self, key, body, expect, decls="", meta=None):
        self.key = key          # unique, deterministic description of the case (signature part)
        self.body = body        # Abra statements (function body) printing the observation
        self.expect = expect    # ("out", text) | ("err", kind[, msg]) | ("any",) | callable(obs)->str|None
        self.decls = decls      # top-level declarations this case needs (deduplicated per program)
        self.meta = meta


def program_for(cases, extra_decls=""):
    parts = [PROLOG, extra_decls]
    seen = set()
    for c in cases:
        if c.decls and c.decls not in seen:
            seen.add(c.decls)
            parts.append(c.decls + "\n")
    for i, c in enumerate(cases):
        parts.append("fn verif_case_%d() {\n%s\n}\n" % (i, c.body))
    parts.append("let verif_k = verif_next_case()\n")
    for i in range(len(cases)):
        parts.append("if verif_k == %d { verif_case_%d() }\n" % (i, i))
    return "".join(parts)


def single_program(case, extra_decls=""):
    """Stand-alone program of one case (used for confirmation / replay): no dispatcher."""
    return (extra_decls + (case.decls + "\n" if case.decls else "")
            + "fn verif_case_0() {\n%s\n}\nverif_case_0()\n" % case.body)


HOSTS = [{"name": "verif_next_case", "args": [], "ret": "int", "replies": [-1], "log": False}]


def make_jobs(prefix, cases, per_prog=200, run_spec=None, extra_decls="", std=False, run_specs_for=None):
    """-> (jobs, index) where index[job_id] = list of cases (run i <-> case i).
    run_specs_for(case) may return a list of run specs (several runs per case); default one."""
    jobs, index = [], {}
    for n in range(0, len(cases), per_prog):
        chunk = cases[n:n + per_prog]
        jid = "%s-%05d" % (prefix, n // per_prog)
        runs, owner = [], []
        for i, c in enumerate(chunk):
            specs = run_specs_for(c) if run_specs_for else [run_spec or {}]
            for sp in specs:
                r = dict(sp)
                r["replies"] = {"verif_next_case": [i, -1]}
                r.setdefault("max_steps", 3_000_000)
                runs.append(r)
                owner.append(i)
        job = {"id": jid, "files": {"main.abra": program_for(chunk, extra_decls)}, "hosts": HOSTS, "runs": runs}
        if std:
            job["std"] = True
        jobs.append(job)
        index[jid] = (chunk, owner)
    return jobs, index


def observe(run):
    """-> ("out", text) | ("err", kind, msg) | ("fault", description)"""
    st = run.get("status")
    if st == "done":
        return ("out", run.get("output", ""))
    if st == "error":
        k = vlib.parse_vm_error(run.get("err"))
        if k[0].startswith("internal:"):
            return ("fault", k[0])
        return ("err", k[0], k[1], run.get("output", ""))
    if st == "panic":
        return ("fault", vlib.panic_sig(run.get("panic")))
    if st == "nocompile":
        return ("nocompile",)
    return ("fault", "status=%s" % st)


def judge_case(case, obs):
    """None if the observation satisfies the expectation, else a short description."""
    e = case.expect
    if callable(e):
        return e(obs)
    if e[0] == "any":
        if obs[0] == "fault":
            return "internal fault: %s" % obs[1]
        if obs[0] == "nocompile":
            return "compiler rejected the program"
        return None
    if e[0] == "out":
        if obs[0] == "out" and obs[1] == e[1]:
            return None
        return "expected output %r, observed %r" % (e[1], obs_short(obs))
    if e[0] == "err":
        if obs[0] == "err" and obs[1] == e[1] and (len(e) < 3 or e[2] is None or e[2] == obs[2]):
            return None
        return "expected runtime error %r, observed %r" % (e[1:], obs_short(obs))
    return "bad expectation"


def obs_short(obs):
    if obs[0] == "out":
        return ("out", obs[1][:200])
    if obs[0] == "err":
        return ("err", obs[1], (obs[2] or "")[:80])
    return obs


def run_cases(ctx, prefix, cases, sig_of, per_prog=200, run_spec=None, extra_decls="", std=False,
              run_specs_for=None, compile_fail_is_violation=True):
    """Execute cases, judge them, register candidates (confirmed later on the single-case
    program). Returns (n_runs_observed, set of keys observed, list of failures)."""
    jobs, index = make_jobs(prefix, cases, per_prog, run_spec, extra_decls, std, run_specs_for)
    results = ctx.run(jobs)
    observed = set()
    nruns = 0
    failures = []
    for job in jobs:
        res = results[job["id"]]
        chunk, owner = index[job["id"]]
        cr = vlib.crash_of(res)
        comp = res.get("compile", {})
        if cr or not comp.get("ok"):
            # whole program failed to compile / crashed: find the culprit cases one by one
            why = cr[1] if cr else (comp.get("panic") and "compiler panic %s" % comp["panic"]) or comp.get("errors", "")[:400]
            failures.append(("program", job["id"], why))
            solo = []
            for c in chunk:
                solo.append(c)
            _bisect_cases(ctx, prefix + "s", solo, sig_of, run_spec, extra_decls, std, run_specs_for, observed, failures)
            continue
        for run, i in zip(res.get("runs", []), owner):
            c = chunk[i]
            nruns += 1
            obs = observe(run)
            observed.add(c.key)
            why = judge_case(c, obs)
            if why:
                failures.append(("case", c.key, why))
                _register(ctx, c, why, sig_of, run_spec, extra_decls, std, run_specs_for)
    return nruns, observed, failures


def _register(ctx, c, why, sig_of, run_spec, extra_decls, std, run_specs_for):
    specs = run_specs_for(c) if run_specs_for else [run_spec or {}]
    job = {"id": "confirm", "files": {"main.abra": single_program(c, extra_decls)}, "runs": [dict(s) for s in specs]}
    if std:
        job["std"] = True
    sig = sig_of(c)

    def judge(res, c=c, sig=sig):
        cr = vlib.crash_of(res)
        if cr:
            return [(sig, cr[1])]
        comp = res.get("compile", {})
        if not comp.get("ok"):
            if comp.get("panic"):
                return [(sig, "compiler panic: %s" % comp["panic"])]
            return [(sig, "compiler rejected: %s" % comp.get("errors", "")[:300])]
        out = []
        for run in res.get("runs", []):
            w = judge_case(c, observe(run))
            if w:
                out.append((sig, w))
        return out

    ctx.candidate(sig, "%s: %s" % (c.key, why), job, judge)


def _bisect_cases(ctx, prefix, cases, sig_of, run_spec, extra_decls, std, run_specs_for, observed, failures):
    """A program with many cases failed as a whole; run each case as its own program."""
    jobs = []
    for n, c in enumerate(cases):
        specs = run_specs_for(c) if run_specs_for else [run_spec or {}]
        job = {"id": "%s-%s-%d" % (prefix, vlib.hhex(c.key)[:8], n), "files": {"main.abra": single_program(c, extra_decls)},
               "runs": [dict(s) for s in specs]}
        if std:
            job["std"] = True
        jobs.append(job)
    results = ctx.run(jobs)
    for job, c in zip(jobs, cases):
        res = results[job["id"]]
        observed.add(c.key)
        cr = vlib.crash_of(res)
        comp = res.get("compile", {})
        why = None
        if cr:
            why = cr[1]
        elif not comp.get("ok"):
            why = ("compiler panic: %s" % comp["panic"]) if comp.get("panic") else "compiler rejected: %s" % comp.get("errors", "")[:300]
        else:
            for run in res.get("runs", []):
                why = why or judge_case(c, observe(run))
        if why:
            failures.append(("case", c.key, why))
            _register(ctx, c, why, sig_of, run_spec, extra_decls, std, run_specs_for)
