"""Hand-written GC stress kernels (C06/C07/C09): short allocation-heavy programs whose every
intermediate value matters for the printed result, so that reclaiming a reachable object shows."""

KERNELS = {}
FILL = "\n".join('let fl%d = ["f" .. %d]' % (i, i) for i in range(14))


def k(name, src):
    KERNELS[name] = src


k("pop-after-scan", """
let xs: array<array<int>> = []
for i in 6 { xs.push([i, i + 1]) }
var total = 0
while xs.len() > 0 {
  let e = xs.pop()
  let pad = [e[0], e[1], 7]
  total = total + e[0] + e[1] + pad.len()
}
println(total)
""")

k("field-overwrite", """
type Box = {
  v: array<int>
}
let b = Box([1, 2, 3])
var acc = 0
for i in 8 {
  let old = b.v
  b.v = [i, i]
  let junk = [old[0], 9]
  acc = acc + old.len() + old[0] + junk[1]
}
println(acc)
println(b.v)
""")

k("index-overwrite", """
let grid: array<array<string>> = [["a"], ["b"], ["c"]]
var out = ""
for i in 9 {
  let j = i % 3
  let old = grid[j]
  grid[j] = [old[0] .. i]
  let tmp = [old[0], old[0]]
  out = out .. old[0] .. tmp.len()
}
println(out)
println(grid)
""")

k("closures-on-stack", """
let fs: array<int -> int> = []
for i in 5 {
  let arr = [i, i * 2, i * 3]
  fs.push((x: int) -> x + arr[2])
}
var s = 0
for f in fs {
  let pad = [s, s]
  s = s + f(1) + pad.len()
}
println(s)
""")

k("inflight-strings", """
var hits = 0
var all = ""
for i in 6 {
  let s = ("ab" .. i) .. ("cd" .. i)
  if ("x" .. i .. "yy") == ("x" .. i .. "yy") { hits += 1 }
  if ("p" .. i) < ("p" .. (i + 1)) { hits += 1 }
  all = all .. s
}
println(hits)
println(all)
""")

k("arrays-of-arrays", """
let outer: array<array<int>> = []
for i in 12 {
  let inner = [i]
  outer.push(inner)
  inner.push(i + 1)
  if i % 3 == 0 { outer.push([i, i, i]) }
}
var sum = 0
for a in outer { for x in a { sum += x } }
println(sum)
println(outer.len())
""")

k("enum-list", """
type Li =
  | Cons(int, Li)
  | Nil
fn build(n: int) -> Li {
  if n == 0 { Li.Nil } else { Li.Cons(n, build(n - 1)) }
}
fn total(l: Li) -> int {
  match l {
    .Cons(h, t) -> h + total(t)
    .Nil -> 0
  }
}
let l = build(9)
let junk = [[1], [2], [3]]
println(total(l) + junk.len())
let l2 = Li.Cons(100, l)
println(total(l2))
""")

k("alias-mutation", """
type Pt = {
  tag: string
  xs: array<int>
}
let p = Pt("p" .. 1, [1])
let q = p
let t = (p, [q.xs])
for i in 5 {
  q.xs.push(i)
  q.tag = q.tag .. i
  let (a, b) = t
  b.push(a.xs)
}
println(p.tag)
println(p.xs)
let (a, b) = t
println(b.len())
""")

k("channel-queue-main", """
let c: channel<array<string>> = channel()
for i in 4 { c.write(["m" .. i, "n" .. i]) }
var out = ""
for i in 4 {
  let pad = [[i], [i, i]]
  let a = c.read()
  out = out .. a[0] .. a[1] .. pad.len()
}
println(out)
""")

k("task-pingpong", """
let jobs: channel<array<int>> = channel()
let results: channel<string> = channel()
task {
  // the worker never finishes: it blocks on `jobs` after the fifth job (a finished writer frees
  // the strings it sent - recorded defect, see corpus case channel-heap-after-writer-exit)
  while true {
    let a = jobs.read()
    results.write("r" .. a[0] .. "-" .. a.len())
  }
}
for i in 5 { jobs.write([i, i, i]) }
var out = ""
for _ in 5 { out = out .. results.read() .. " " }
println(out)
""")

k("string-builder", """
var s = ""
var parts: array<string> = []
for i in 14 {
  s = s .. i .. ","
  parts.push(s)
}
println(s)
println(parts[13])
println(parts[0] .. parts[6])
""")

k("tuple-array-update", """
let xs: array<(string, array<int>)> = [("a", [1]), ("b", [2]), ("c", [3])]
for i in 9 {
  let j = i % 3
  let (key, v) = xs[j]
  xs[j] = (key .. i, [v[0] + i, i])
}
for x in xs { let (key, v) = x; println(key .. v) }
""")

k("deep-recursion-roots", """
fn go(n: int, acc: array<int>) -> array<int> {
  if n == 0 { return acc }
  let mine = [n, n]
  let r = go(n - 1, [acc[0] + mine[1], n])
  [r[0] + mine[0], r[1]]
}
println(go(12, [0, 0]))
""")

k("alloc-bursts", """
let keep: array<array<int>> = []
for i in 6 {
  let big = [i, i, i, i, i, i, i, i, i, i, i, i, i, i, i, i]
  let a: array<int> = []
  let b: array<int> = []
  let c = [i]
  a.push(i)
  b.push(i + 1)
  keep.push(a)
  keep.push(b)
  keep.push(c)
}
var s = 0
for k in keep { s = s + k[0] }
println(s)
println(keep.len())
""")

k("option-result-churn", """
fn half(n: int) -> option<int> {
  if n % 2 == 0 { option.some(n / 2) } else { option.none }
}
fn step(n: int) -> result<array<int>, string> {
  match half(n) {
    .some(h) -> result.ok([h, n])
    .none -> result.err("odd" .. n)
  }
}
var out = ""
for i in 10 {
  match step(i) {
    .ok(a) -> { out = out .. a[0] .. ":" .. a[1] .. " " }
    .err(e) -> { out = out .. e .. " " }
  }
}
println(out)
""")

k("struct-cycle-free", """
type Node = {
  name: string
  kids: array<Node>
}
let root = Node("r", [])
var cur = root
for i in 6 {
  let n = Node("n" .. i, [])
  cur.kids.push(n)
  cur.kids.push(Node("x" .. i, []))
  cur = n
}
fn count(n: Node) -> int {
  var c = 1
  for k in n.kids { c = c + count(k) }
  c
}
println(count(root))
println(cur.name)
""")

k("move-between-arrays", """
let a: array<array<int>> = []
let b: array<array<int>> = []
for i in 10 { a.push([i, i * i]) }
while a.len() > 0 {
  b.push(a.pop())
  if b.len() % 3 == 0 { a.push(b[0]) ; b[0] = [b.len()] }
  if b.len() > 14 { break }
}
var s = 0
for x in b { s = s + x[0] + x.len() }
for x in a { s = s + x[0] }
println(s)
""")

k("field-swap", """
type Pair = {
  l: array<string>
  r: array<string>
}
let p = Pair(["l0"], ["r0"])
let q = Pair(["ql"], ["qr"])
for i in 9 {
  let t = p.l
  p.l = q.r
  q.r = p.r
  p.r = t
  if i % 2 == 0 { q.l = [p.l[0] .. i] }
}
println(p.l[0] .. p.r[0] .. q.l[0] .. q.r[0])
""")


# The next kernels delay the scan of a container: it is the FIRST heap local (so it sits at the bottom of
# the gray stack, which is processed last-in-first-out) and 14 more heap locals follow. With one
# object marked per instruction, a value can be taken out of the container (pop / field load /
# element load) and the slot overwritten before the container is scanned: the value is then
# reachable only from the operand stack and only the root rescan at mark termination finds it -
# and it has heap children of its own that must still be traced.
k("late-pop-container", """
let outer: array<array<string>> = []
let fl0 = ["f" .. 0]
let fl1 = ["f" .. 1]
let fl2 = ["f" .. 2]
let fl3 = ["f" .. 3]
let fl4 = ["f" .. 4]
let fl5 = ["f" .. 5]
let fl6 = ["f" .. 6]
let fl7 = ["f" .. 7]
let fl8 = ["f" .. 8]
let fl9 = ["f" .. 9]
let fl10 = ["f" .. 10]
let fl11 = ["f" .. 11]
let fl12 = ["f" .. 12]
let fl13 = ["f" .. 13]
for i in 5 { outer.push(["s" .. i, "t" .. i]) }
var out = ""
while outer.len() > 0 {
  let e = outer.pop()
  let pad = ["p" .. out.len()]
  out = out .. e[0] .. e[1] .. pad[0]
}
println(out)
println(fl0[0] .. fl13[0])
""")

k("late-field-container", """
type Holder = {
  inner: array<string>
}
let h = Holder(["a" .. 0, "b" .. 0])
let fl0 = ["f" .. 0]
let fl1 = ["f" .. 1]
let fl2 = ["f" .. 2]
let fl3 = ["f" .. 3]
let fl4 = ["f" .. 4]
let fl5 = ["f" .. 5]
let fl6 = ["f" .. 6]
let fl7 = ["f" .. 7]
let fl8 = ["f" .. 8]
let fl9 = ["f" .. 9]
let fl10 = ["f" .. 10]
let fl11 = ["f" .. 11]
let fl12 = ["f" .. 12]
let fl13 = ["f" .. 13]
var out = ""
for i in 5 {
  let got = h.inner
  h.inner = ["a" .. (i + 1), "b" .. (i + 1)]
  let pad = ["q" .. i]
  out = out .. got[0] .. got[1] .. pad[0]
}
println(out)
println(h.inner)
println(fl0[0] .. fl13[0])
""")

k("late-element-struct", """
type Job = {
  message: string
  id: int
}
type Tagged = {
  scratch: array<int>
  job: Job
}
let jobs: array<Job> = []
let fl0 = ["f" .. 0]
let fl1 = ["f" .. 1]
let fl2 = ["f" .. 2]
let fl3 = ["f" .. 3]
let fl4 = ["f" .. 4]
let fl5 = ["f" .. 5]
let fl6 = ["f" .. 6]
let fl7 = ["f" .. 7]
let fl8 = ["f" .. 8]
let fl9 = ["f" .. 9]
let fl10 = ["f" .. 10]
let fl11 = ["f" .. 11]
let fl12 = ["f" .. 12]
let fl13 = ["f" .. 13]
var out = ""
for i in 5 {
  jobs.push(Job("payload " .. i, i))
  let tagged = Tagged([0, 0, 0, 0], jobs.pop())
  let j = tagged.job
  out = out .. j.message .. j.id
}
println(out)
println(fl0[0] .. fl13[0])
""")

k("late-variant-payload", """
type Wrap =
  | Empty
  | Full(array<string>)
let ws: array<Wrap> = []
let fl0 = ["f" .. 0]
let fl1 = ["f" .. 1]
let fl2 = ["f" .. 2]
let fl3 = ["f" .. 3]
let fl4 = ["f" .. 4]
let fl5 = ["f" .. 5]
let fl6 = ["f" .. 6]
let fl7 = ["f" .. 7]
let fl8 = ["f" .. 8]
let fl9 = ["f" .. 9]
let fl10 = ["f" .. 10]
let fl11 = ["f" .. 11]
let fl12 = ["f" .. 12]
let fl13 = ["f" .. 13]
var out = ""
for i in 5 {
  ws.push(Wrap.Full(["v" .. i, "w" .. i]))
  let w = ws.pop()
  let pad = ["r" .. i]
  match w {
    .Full(xs) -> { out = out .. xs[0] .. xs[1] .. pad[0] }
    .Empty -> { out = out .. "?" }
  }
}
println(out)
println(fl0[0] .. fl13[0])
""")


# Insertion barrier: `src` (first heap local: scanned LAST) still holds unscanned rows, `dst` (last heap
# local: scanned FIRST) is already black when a row is moved out of `src` into it. Without the
# barrier on the store the row is reachable only through a black object and is swept.
k("late-barrier-setfield", """
type Slot = {
  item: array<string>
}
let src = [["a" .. 1, "b" .. 1], ["a" .. 2, "b" .. 2], ["a" .. 3, "b" .. 3], ["a" .. 4, "b" .. 4]]
%(fill)s
let slot = Slot(["z" .. 0])
var out = ""
while src.len() > 0 {
  slot.item = src.pop()
  let junk = [["j" .. src.len()], ["k" .. src.len()]]
  out = out .. slot.item[0] .. slot.item[1] .. junk[1][0]
}
println(out)
println(fl0[0] .. fl13[0])
""" % {"fill": FILL})

k("late-barrier-setindex", """
let src = [["a" .. 1, "b" .. 1], ["a" .. 2, "b" .. 2], ["a" .. 3, "b" .. 3], ["a" .. 4, "b" .. 4]]
%(fill)s
let dst = [["z" .. 0], ["y" .. 0]]
var out = ""
var i = 0
while src.len() > 0 {
  dst[i %% 2] = src.pop()
  i = i + 1
  let junk = [["j" .. i], ["k" .. i]]
  out = out .. dst[0][0] .. dst[1][0] .. junk[0][0]
}
println(out)
println(dst)
println(fl0[0] .. fl13[0])
""" % {"fill": FILL})

k("late-barrier-push", """
let src = [["a" .. 1, "b" .. 1], ["a" .. 2, "b" .. 2], ["a" .. 3, "b" .. 3], ["a" .. 4, "b" .. 4]]
%(fill)s
let dst: array<array<string>> = [["z" .. 0]]
while src.len() > 0 {
  dst.push(src.pop())
  let junk = [["j" .. dst.len()], ["k" .. dst.len()]]
}
println(dst)
println(fl0[0] .. fl13[0])
""" % {"fill": FILL})

k("late-barrier-nested-field", """
type Inner = {
  rows: array<string>
}
type Outer = {
  inner: Inner
  n: int
}
let src = [Inner(["a" .. 1]), Inner(["a" .. 2]), Inner(["a" .. 3]), Inner(["a" .. 4])]
%(fill)s
let dst = Outer(Inner(["z" .. 0]), 0)
var out = ""
while src.len() > 0 {
  dst.inner = src.pop()
  dst.inner.rows = [dst.inner.rows[0] .. "+", "n" .. dst.n]
  dst.n = dst.n + 1
  let junk = [["j" .. src.len()]]
  out = out .. dst.inner.rows[0] .. dst.inner.rows[1]
}
println(out)
println(fl0[0] .. fl13[0])
""" % {"fill": FILL})

k("late-barrier-variant-into-field", """
type Tree =
  | Leaf(string)
  | Node(array<string>)
type Holder = {
  t: Tree
}
let src = [Tree.Node(["a" .. 1, "b" .. 1]), Tree.Leaf("c" .. 2), Tree.Node(["a" .. 3]), Tree.Leaf("c" .. 4)]
%(fill)s
let dst = Holder(Tree.Leaf("z" .. 0))
var out = ""
while src.len() > 0 {
  dst.t = src.pop()
  let junk = [["j" .. src.len()], ["k"]]
  match dst.t {
    .Leaf(x) -> { out = out .. x }
    .Node(xs) -> { out = out .. xs[0] .. xs.len() }
  }
}
println(out)
println(fl0[0] .. fl13[0])
""" % {"fill": FILL})
