"""C18 Named and default arguments behave like the positional call.

Oracle: a 20-line binding reference (positional prefix, then names, then defaults). Exhaustive
over arity <= 3 (arity 4 sampled in quick, full in thorough), every subset of parameters with
defaults, every call shape (positional prefix length x named subset x a few permutations) for
free functions, member functions, struct constructors and variant constructors with named
fields; every misuse shape (unknown / duplicate / missing name, positional after named) must be
rejected with a diagnostic and never crash the compiler."""
import itertools

from checks.common import Case, run_cases

LEVEL = "fault_enumeration"
NAMES = ["pa", "pb", "pc", "pd"]
KINDS = ["fn", "member", "struct", "variant"]


def decl(kind, n, mask):
    tag = "%d_%d" % (n, mask)
    ps = []
    for i in range(n):
        d = " = %d" % (20 + i) if mask >> i & 1 else ""
        ps.append("%s: int%s" % (NAMES[i], d))
    shown = ' .. "," .. '.join(NAMES[:n])
    if kind == "fn":
        return "fn f%s(%s) {\n  println(%s)\n}\n" % (tag, ", ".join(ps), shown), "f%s" % tag
    if kind == "member":
        return "extend Recv {\n  fn m%s(self, %s) {\n    println(self.z .. \":\" .. %s)\n  }\n}\n" % (tag, ", ".join(ps), shown), "m%s" % tag
    if kind == "struct":
        fields = "\n".join("  " + p for p in ps)
        return "type Sx%s = {\n%s\n}\n" % (tag, fields), "Sx%s" % tag
    if kind == "variant":
        return "type Ex%s = | Vx%s(%s) | Wx%s\n" % (tag, tag, ", ".join(ps), tag), "Ex%s.Vx%s" % (tag, tag)


def call_text(kind, callee, n, args):
    """args: list of (name or None, value)"""
    a = ", ".join(("%s = %d" % (nm, v)) if nm else str(v) for nm, v in args)
    shown = ' .. "," .. '.join("r.%s" % x for x in NAMES[:n])
    if kind == "fn":
        return "%s(%s)" % (callee, a)
    if kind == "member":
        return "Recv(7).%s(%s)" % (callee, a)
    if kind == "struct":
        return "let r = %s(%s)\nprintln(%s)" % (callee, a, shown)
    vn = callee.split(".")[1]
    binds = ", ".join(NAMES[:n])
    return "let r = %s(%s)\nmatch r {\n  .%s(%s) -> println(%s)\n  _ -> println(\"other\")\n}" % (
        callee, a, vn, binds, ' .. "," .. '.join(NAMES[:n]))


def expected(kind, n, mask, p, named):
    vals = {}
    for i in range(p):
        vals[i] = 100 + i
    for i in named:
        vals[i] = 200 + i
    out = []
    for i in range(n):
        out.append(str(vals.get(i, 20 + i)))
    s = ",".join(out) + "\n"
    return ("7:" + s) if kind == "member" else s


def shapes(n, mask):
    """valid call shapes: (p, ordered named list)"""
    out = []
    for p in range(0, n + 1):
        rest = list(range(p, n))
        required = [i for i in rest if not (mask >> i & 1)]
        optional = [i for i in rest if mask >> i & 1]
        for k in range(len(optional) + 1):
            for opt in itertools.combinations(optional, k):
                S = sorted(required + list(opt))
                perms = [S]
                if len(S) > 1:
                    perms.append(list(reversed(S)))
                if len(S) > 2:
                    perms.append(S[1:] + S[:1])
                    perms.append([S[1], S[0]] + S[2:])
                for pm in perms:
                    out.append((p, pm))
    return out


def misuse(n, mask):
    """-> list of (label, args) that must be rejected"""
    out = []
    full = [(None, 100 + i) for i in range(n)]
    out.append(("unknown-name", full[:max(0, n - 1)] + [("zz", 5)]))
    if n >= 1:
        out.append(("duplicate-name", [(NAMES[0], 1), (NAMES[0], 2)] + [(NAMES[i], 3) for i in range(1, n)]))
        out.append(("positional-and-named-same", [(None, 1), (NAMES[0], 2)] + [(NAMES[i], 3) for i in range(1, n)]))
        # surplus positional arguments are not in the statement's misuse list: only "no crash" is demanded
        out.append(("crashonly-too-many-positional", full + [(None, 9)]))
    if n >= 2:
        out.append(("positional-after-named", [(NAMES[0], 1), (None, 2)] + [(NAMES[i], 3) for i in range(2, n)]))
    required = [i for i in range(n) if not (mask >> i & 1)]
    if required:
        miss = required[-1]
        out.append(("missing-required", [(NAMES[i], 100 + i) for i in range(n) if i != miss]))
    return out


def run(ctx):
    r = ctx.rng.fork("c18")
    cases = []
    rejects = []
    for kind in KINDS:
        for n in range(1, 5):
            for mask in range(1 << n):
                d, callee = decl(kind, n, mask)
                if kind == "member":
                    d = d
                sh = shapes(n, mask)
                if n == 4 and ctx.quick:
                    sh = r.sample(sh, max(4, len(sh) // 8))
                for (p, named) in sh:
                    args = [(None, 100 + i) for i in range(p)] + [(NAMES[i], 200 + i) for i in named]
                    key = "%s n=%d defaults=%s call=%s" % (kind, n, format(mask, "0%db" % n), ",".join(("%s=" % nm if nm else "") + str(v) for nm, v in args))
                    cases.append(Case(key, call_text(kind, callee, n, args), ("out", expected(kind, n, mask, p, named)), d))
                if n <= 3 or not ctx.quick or mask in (0, 5, 15):
                    for label, args in misuse(n, mask):
                        key = "%s n=%d defaults=%s misuse=%s" % (kind, n, format(mask, "0%db" % n), label)
                        rejects.append((key, "type Recv = {\n  z: int\n}\n" + d + call_text(kind, callee, n, args) + "\n"))
    nruns, observed, failures = run_cases(ctx, "c18", cases, lambda c: "C18 " + c.key, per_prog=150, extra_decls="type Recv = {\n  z: int\n}\n")
    jobs = [{"id": "mis%04d" % i, "mode": "checkcompile", "files": {"main.abra": src}} for i, (key, src) in enumerate(rejects)]
    results = ctx.run(jobs)
    for (key, src), job in zip(rejects, jobs):
        def judge(res, key=key):
            sig = "C18 " + key
            c, k = res.get("check", {}), res.get("compile", {})
            if c.get("panic") or k.get("panic"):
                return [(sig, "compiler panicked on argument misuse: %s" % (c.get("panic") or k.get("panic")))]
            if (c.get("ok") or k.get("ok")) and "crashonly" not in key:
                return [(sig, "argument misuse was accepted without a diagnostic")]
            return []
        for sig, what in judge(results[job["id"]]):
            ctx.candidate(sig, what, job, judge)
    ctx.coverage(
        evaluations=nruns + len(rejects),
        distinct_nontrivial=len(observed) + len(rejects),
        rule="case = (callee kind, arity, default subset, call shape); valid shapes are executed and the values received by the callee "
             "compared with the binding reference; misuse shapes must be rejected by check and compile_bytecode without a panic",
        samples=[{"case": c.key, "decl": c.decls, "call": c.body, "expected": c.expect[1]} for c in (cases[5], cases[-1])],
        valid_shapes=len(cases),
        misuse_shapes=len(rejects),
        exhaustive=not ctx.quick,
        failures=failures[:20],
    )
    ctx.need(len(observed) >= 0.98 * len({c.key for c in cases}), "only %d of %d cases observed" % (len(observed), len(cases)))


def replay(ctx, rep):
    res = ctx.ex.run_alone(rep["job"])
    print(__import__("json").dumps(res)[:3000])
