"""C18 Named and default arguments behave like the positional call.

Oracle: a 20-line binding reference (positional prefix, then names, then defaults). Exhaustive
over arity <= 3 (arity 4 sampled in quick, full in thorough), every subset of parameters with
defaults, every call shape (positional prefix length x named subset x a few permutations) for
free functions, member functions, struct constructors and variant constructors with named
fields; every misuse shape (unknown / duplicate / missing name, positional after named) must be
rejected with a diagnostic and never crash the compiler.

Second family (`dexpr`): the default value is an EXPRESSION (call, operator, constructor, a call
that itself relies on defaults, block, lambda ...) of various types; the call that leaves it off
must behave like the positional call with the expression written out, for every callee kind.
A default that would need itself (the checker must report it, never overflow) is a reject case."""
import itertools

from checks.common import Case, run_cases

LEVEL = "fault_enumeration"
NAMES = ["pa", "pb", "pc", "pd"]
KINDS = ["fn", "member", "struct", "variant", "dotvariant"]


def decl(kind, n, mask):
    tag = "%d_%d" % (n, mask)
    ps = []
    for i in range(n):
        d = " = %d" % (20 + i) if mask >> i & 1 else ""
        ps.append("%s: int%s" % (NAMES[i], d))
    shown = ' .. "," .. '.join(NAMES[:n])
    if kind == "fn":
        return "fn f%s(%s) {\n  println(%s)\n}\n" % (tag, ", ".join(ps), shown), "f%s" % tag
    if kind == "member":
        return "extend Recv {\n  fn m%s(self, %s) {\n    println(self.z .. \":\" .. %s)\n  }\n}\n" % (tag, ", ".join(ps), shown), "m%s" % tag
    if kind == "struct":
        fields = "\n".join("  " + p for p in ps)
        return "type Sx%s = {\n%s\n}\n" % (tag, fields), "Sx%s" % tag
    if kind in ("variant", "dotvariant"):
        # dotvariant: the same constructor written with a leading dot where the type is known
        tag = tag + ("d" if kind == "dotvariant" else "")
        return "type Ex%s = | Vx%s(%s) | Wx%s\n" % (tag, tag, ", ".join(ps), tag), "Ex%s.Vx%s" % (tag, tag)


def call_text(kind, callee, n, args):
    """args: list of (name or None, value)"""
    a = ", ".join((("%s = %d" % (nm, v)) if nm != "self" else "self = Recv(9)") if nm else str(v) for nm, v in args)
    shown = ' .. "," .. '.join("r.%s" % x for x in NAMES[:n])
    if kind == "fn":
        return "%s(%s)" % (callee, a)
    if kind == "member":
        return "Recv(7).%s(%s)" % (callee, a)
    if kind == "struct":
        return "let r = %s(%s)\nprintln(%s)" % (callee, a, shown)
    vn = callee.split(".")[1]
    binds = ", ".join(NAMES[:n])
    if kind == "dotvariant":
        return "let r: %s = .%s(%s)\nmatch r {\n  .%s(%s) -> println(%s)\n  _ -> println(\"other\")\n}" % (
            callee.split(".")[0], vn, a, vn, binds, ' .. "," .. '.join(NAMES[:n]))
    return "let r = %s(%s)\nmatch r {\n  .%s(%s) -> println(%s)\n  _ -> println(\"other\")\n}" % (
        callee, a, vn, binds, ' .. "," .. '.join(NAMES[:n]))


def expected(kind, n, mask, p, named):
    vals = {}
    for i in range(p):
        vals[i] = 100 + i
    for i in named:
        vals[i] = 200 + i
    out = []
    for i in range(n):
        out.append(str(vals.get(i, 20 + i)))
    s = ",".join(out) + "\n"
    return ("7:" + s) if kind == "member" else s


def shapes(n, mask):
    """valid call shapes: (p, ordered named list)"""
    out = []
    for p in range(0, n + 1):
        rest = list(range(p, n))
        required = [i for i in rest if not (mask >> i & 1)]
        optional = [i for i in rest if mask >> i & 1]
        for k in range(len(optional) + 1):
            for opt in itertools.combinations(optional, k):
                S = sorted(required + list(opt))
                perms = [S]
                if len(S) > 1:
                    perms.append(list(reversed(S)))
                if len(S) > 2:
                    perms.append(S[1:] + S[:1])
                    perms.append([S[1], S[0]] + S[2:])
                for pm in perms:
                    out.append((p, pm))
    return out


def misuse(n, mask):
    """-> list of (label, args) that must be rejected"""
    out = []
    full = [(None, 100 + i) for i in range(n)]
    out.append(("unknown-name", full[:max(0, n - 1)] + [("zz", 5)]))
    if n >= 1:
        out.append(("duplicate-name", [(NAMES[0], 1), (NAMES[0], 2)] + [(NAMES[i], 3) for i in range(1, n)]))
        out.append(("positional-and-named-same", [(None, 1), (NAMES[0], 2)] + [(NAMES[i], 3) for i in range(1, n)]))
        # surplus positional arguments are not in the statement's misuse list: only "no crash" is demanded
        out.append(("crashonly-too-many-positional", full + [(None, 9)]))
    if n >= 2:
        out.append(("positional-after-named", [(NAMES[0], 1), (None, 2)] + [(NAMES[i], 3) for i in range(2, n)]))
    required = [i for i in range(n) if not (mask >> i & 1)]
    if required:
        miss = required[-1]
        out.append(("missing-required", [(NAMES[i], 100 + i) for i in range(n) if i != miss]))
    return out


HELPERS = """fn hlp() -> int = 40
fn dflt(q: int = 9, w: int = hlp() + 2) -> int = q + w
type Bx2 = {
  v: int
  u: int = 3
}
extend Bx2 {
  fn twice(self) -> int = self.v * 2
}
"""

# (label, type, source, rendered)
DEXPRS = [
    ("call", "int", "hlp()", "40"),
    ("call-plus", "int", "hlp() + 1", "41"),
    ("arith", "int", "2 * 3 + 1", "7"),
    ("neg", "int", "-5", "-5"),
    ("paren-neg", "int", "-(2 + 3)", "-5"),
    ("method", "int", "Bx2(8).twice()", "16"),
    ("binding-pattern", "int", "match (1, hlp()) {\n  (x, y) -> x + y\n}", "41"),
    ("if", "int", "if 1 < 2 { 11 } else { 12 }", "11"),
    ("ctor-field", "int", "Bx2(8).v", "8"),
    ("ctor-default-field", "int", "Bx2(8).u", "3"),
    ("call-with-own-defaults", "int", "dflt()", "51"),
    ("call-with-own-default-named", "int", "dflt(w = 1)", "10"),
    ("block", "int", "{\n  let t = 3\n  t + 1\n}", "4"),
    ("match", "int", "match 2 {\n  2 -> 22\n  _ -> 0\n}", "22"),
    ("concat", "string", '"a" .. "b"', "ab"),
    ("concat-int", "string", '"n" .. hlp()', "n40"),
    ("array", "array<int>", "[hlp(), 2]", "[ 40, 2 ]"),
    ("empty-array", "array<int>", "[]", "[  ]"),
    ("not", "bool", "not false", "true"),
    ("cmp", "bool", "hlp() > 39 and true", "true"),
    ("float", "float", "1.5 + 2.0", "3.5"),
    ("tuple", "(int, string)", '(hlp(), "x")', "(40, x)"),
    ("option", "option<int>", "option.some(hlp())", "some(40)"),
    # generic functions of the prelude (declared in a file that is checked later)
    ("prelude-generic-call", "int", "hash_combine(0, 0) - hash_combine(0, 0) + hlp()", "40"),
    ("prelude-generic-string", "string", 'format_append("a", hlp())', "a40"),
    ("prints-while-evaluated", "int", "{\n  println(7)\n  6\n}", "6", "7\n"),
    ("late-generic-call", "int", "lateg(hlp()) + lateg2(1, \"s\")", "41"),
]
LATE_HELPERS = """fn lateg(x: T) -> T = x
fn lateg2(x: T, y: U ToString) -> T {
  let s = "" .. y
  x
}
"""


def dexpr_decl(kind, tag, layout, ty, src):
    if layout == 0:
        ps = ["pa: int", "pb: %s = %s" % (ty, src), "pc: int = 5"]
    else:
        ps = ["pa: %s = %s" % (ty, src), "pb: int = 5"]
    names = ["pa", "pb", "pc"][:len(ps)]
    shown = ' .. "," .. '.join(names)
    if kind == "fn":
        return "fn g%s(%s) {\n  println(%s)\n}\n" % (tag, ", ".join(ps), shown), "g%s" % tag, names
    if kind == "member":
        return "extend Recv {\n  fn k%s(self, %s) {\n    println(self.z .. \":\" .. %s)\n  }\n}\n" % (tag, ", ".join(ps), shown), "k%s" % tag, names
    if kind == "struct":
        return "type Sd%s = {\n%s\n}\n" % (tag, "\n".join("  " + q for q in ps)), "Sd%s" % tag, names
    return "type Ed%s = | Vd%s(%s) | Wd%s\n" % (tag, tag, ", ".join(ps), tag), "Ed%s.Vd%s" % (tag, tag), names


def dexpr_call(kind, callee, names, argtext):
    if kind == "fn":
        return "%s(%s)" % (callee, argtext)
    if kind == "member":
        return "Recv(7).%s(%s)" % (callee, argtext)
    if kind == "struct":
        return "{\n  let r = %s(%s)\n  println(%s)\n}" % (callee, argtext, ' .. "," .. '.join("r." + x for x in names))
    vn = callee.split(".")[1]
    if kind == "dotvariant":
        return "{\n  let r: %s = .%s(%s)\n  match r {\n    .%s(%s) -> println(%s)\n    _ -> println(\"other\")\n  }\n}" % (
            callee.split(".")[0], vn, argtext, vn, ", ".join(names), ' .. "," .. '.join(names))
    return "{\n  let r = %s(%s)\n  match r {\n    .%s(%s) -> println(%s)\n    _ -> println(\"other\")\n  }\n}" % (
        callee, argtext, vn, ", ".join(names), ' .. "," .. '.join(names))


def dexpr_cases():
    cases = []
    n = 0
    for kind in KINDS:
        for dx in DEXPRS:
            (label, ty, src, shown), out_before = dx[:4], (dx[4] if len(dx) > 4 else "")
            for layout in (0, 1):
                n += 1
                d, callee, names = dexpr_decl(kind, "x%d" % n, layout, ty, src)
                pre = out_before + ("7:" if kind == "member" else "")
                if layout == 0:
                    calls = [("omit", "1", "1,%s,5" % shown), ("omit-then-named", "1, pc = 6", "1,%s,6" % shown),
                             ("all-named-omit", "pc = 6, pa = 2", "2,%s,6" % shown), ("written-out", "1, %s" % src, "1,%s,5" % shown),
                             ("written-out-named", "pb = %s, pa = 3" % src, "3,%s,5" % shown)]
                else:
                    calls = [("omit-all", "", "%s,5" % shown), ("omit-first", "pb = 1", "%s,1" % shown), ("written-out", src, "%s,5" % shown)]
                if "lateg" in src:
                    d = d + LATE_HELPERS.replace("lateg", "lateg%d_" % n)
                    d = d.replace("lateg(", "lateg%d_(" % n).replace("lateg2(", "lateg%d_2(" % n)
                    src_n = src.replace("lateg(", "lateg%d_(" % n).replace("lateg2(", "lateg%d_2(" % n)
                    calls = [(cl, a.replace(src, src_n), e) for (cl, a, e) in calls]
                for (cl, argtext, exp) in calls:
                    if "\n" in argtext:
                        continue  # multi-line expressions are only used as declared defaults
                    key = "dexpr %s %s layout=%d call=%s" % (kind, label, layout, cl)
                    cases.append(Case(key, dexpr_call(kind, callee, names, argtext), ("out", pre + exp + "\n"), d))
    return cases


NEEDS_ITSELF = {
    "fn-direct": "fn sf(a: int, b: int = sf(3)) -> int = a + b\nprintln(sf(1))\n",
    "fn-indirect": "fn sf(a: int, b: int = sg(3)) -> int = a + b\nfn sg(a: int, b: int = sf(3)) -> int = a + b\nprintln(sf(1))\n",
    "struct-direct": "type Pq = {\n  x: int\n  y: int = Pq(3).x\n}\nprintln(Pq(1).y)\n",
    "struct-indirect": "type Pq = {\n  x: int\n  y: int = Rq(3).x\n}\ntype Rq = {\n  x: int\n  y: int = Pq(3).x\n}\nprintln(Pq(1).y)\n",
    "member-direct": "type Pq = {\n  x: int\n}\nextend Pq {\n  fn mm(self, k: int = Pq(1).mm()) -> int = k\n}\nprintln(Pq(1).mm())\n",
    "fn-default-names-own-parameter": "fn sf(a: int, b: int = a + 1) -> int = a + b\nprintln(sf(1))\n",
}
# not needing itself: the default supplies every argument
TERMINATING = {
    "lambda-default": ("fn hq() -> int = 40\nfn ap(v: int, f: int -> int = x -> x + hq()) -> int = f(v)\nprintln(ap(1))\nprintln(ap(1, y -> y))\n", "41\n1\n"),
    "default-used-in-lambda-and-recursion": ("fn fq(a: int, b: int = {\n  let t = 3\n  t + 1\n}) -> int = a + b\nlet g = x -> x + fq(10)\nprintln(g(1))\nfn hq(n: int) -> int = if n == 0 { 0 } else { fq(n) + hq(n - 1) }\nprintln(hq(3))\nprintln(fq(1) + fq(2))\n", "15\n18\n11\n"),
    "fn-full-call-in-default": ("fn sf(a: int, b: int = sf(3, 4)) -> int = a + b\nprintln(sf(1))\n", "8\n"),
    "struct-full-call-in-default": ("type Pq = {\n  x: int\n  y: int = Pq(3, 4).x\n}\nprintln(Pq(1).y)\n", "3\n"),
}


def run(ctx):
    r = ctx.rng.fork("c18")
    cases = []
    rejects = []
    for kind in KINDS:
        for n in range(1, 5):
            for mask in range(1 << n):
                d, callee = decl(kind, n, mask)
                if kind == "member":
                    d = d
                sh = shapes(n, mask)
                if n == 4 and ctx.quick:
                    sh = r.sample(sh, max(4, len(sh) // 8))
                for (p, named) in sh:
                    args = [(None, 100 + i) for i in range(p)] + [(NAMES[i], 200 + i) for i in named]
                    key = "%s n=%d defaults=%s call=%s" % (kind, n, format(mask, "0%db" % n), ",".join(("%s=" % nm if nm else "") + str(v) for nm, v in args))
                    cases.append(Case(key, call_text(kind, callee, n, args), ("out", expected(kind, n, mask, p, named)), d))
                if n <= 3 or not ctx.quick or mask in (0, 5, 15):
                    extra = []
                    if kind == "member":
                        # the receiver is not a parameter a call site can name
                        full = [(NAMES[i], 100 + i) for i in range(n)]
                        extra = [("names-the-receiver", full + [("self", 0)]), ("names-the-receiver-first", [("self", 0)] + full)]
                    for label, args in misuse(n, mask) + extra:
                        key = "%s n=%d defaults=%s misuse=%s" % (kind, n, format(mask, "0%db" % n), label)
                        rejects.append((key, "type Recv = {\n  z: int\n}\n" + d + call_text(kind, callee, n, args) + "\n"))
    for k, src in NEEDS_ITSELF.items():
        rejects.append(("dexpr needs-itself %s" % k, src))
    nruns, observed, failures = run_cases(ctx, "c18", cases, lambda c: "C18 " + c.key, per_prog=150, extra_decls="type Recv = {\n  z: int\n}\n")
    dcases = dexpr_cases() + [Case("dexpr terminating %s" % k, "", ("out", exp), None) for k, (src, exp) in TERMINATING.items()]
    term = {"dexpr terminating %s" % k: src for k, (src, exp) in TERMINATING.items()}
    dc = [c for c in dcases if c.key not in term]
    n2, obs2, fail2 = run_cases(ctx, "c18d", dc, lambda c: "C18 " + c.key, per_prog=40, extra_decls="type Recv = {\n  z: int\n}\n" + HELPERS)
    nruns += n2
    observed |= obs2
    failures += fail2
    cases = cases + dc
    tjobs = [{"id": "term%d" % i, "files": {"main.abra": src}, "runs": [{}]} for i, (k, (src, exp)) in enumerate(TERMINATING.items())]
    tres = ctx.run(tjobs)
    for (k, (src, exp)), job in zip(TERMINATING.items(), tjobs):
        def tjudge(res, k=k, exp=exp):
            import vlib
            cr = vlib.crash_of(res)
            if cr:
                return [("C18 dexpr terminating " + k, cr[1])]
            if not res.get("compile", {}).get("ok"):
                return [("C18 dexpr terminating " + k, "rejected: %s" % str(res.get("compile"))[:300])]
            out = [x.get("output") for x in res.get("runs", [])]
            if out != [exp]:
                return [("C18 dexpr terminating " + k, "printed %r, expected %r" % (out, exp))]
            return []
        nruns += 1
        for sig, what in tjudge(tres[job["id"]]):
            ctx.candidate(sig, what, job, tjudge)
    jobs = [{"id": "mis%04d" % i, "mode": "checkcompile", "files": {"main.abra": src}} for i, (key, src) in enumerate(rejects)]
    results = ctx.run(jobs)
    for (key, src), job in zip(rejects, jobs):
        def judge(res, key=key):
            sig = "C18 " + key
            cr = __import__("vlib").crash_of(res)
            if cr:
                return [(sig, "compiler died on argument misuse: %s" % cr[1])]
            c, k = res.get("check", {}), res.get("compile", {})
            if c.get("panic") or k.get("panic"):
                return [(sig, "compiler panicked on argument misuse: %s" % (c.get("panic") or k.get("panic")))]
            if (c.get("ok") or k.get("ok")) and "crashonly" not in key:
                return [(sig, "argument misuse was accepted without a diagnostic")]
            return []
        for sig, what in judge(results[job["id"]]):
            ctx.candidate(sig, what, job, judge)
    ctx.coverage(
        evaluations=nruns + len(rejects),
        distinct_nontrivial=len(observed) + len(rejects),
        rule="case = (callee kind, arity, default subset, call shape); valid shapes are executed and the values received by the callee "
             "compared with the binding reference; misuse shapes must be rejected by check and compile_bytecode without a panic",
        samples=[{"case": c.key, "decl": c.decls, "call": c.body, "expected": c.expect[1]} for c in (cases[5], cases[-1])],
        valid_shapes=len(cases),
        default_expression_cases=len(dc),
        default_expression_kinds=[x[0] for x in DEXPRS],
        misuse_shapes=len(rejects),
        exhaustive=not ctx.quick,
        failures=failures[:20],
    )
    ctx.need(len(observed) >= 0.98 * len({c.key for c in cases}), "only %d of %d cases observed" % (len(observed), len(cases)))


def replay(ctx, rep):
    res = ctx.ex.run_alone(rep["job"])
    print(__import__("json").dumps(res)[:3000])
