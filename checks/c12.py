"""C12 An accepted match always has a matching arm; reported gaps are real.
(also hosts the shared implementation used by C13 and C14: FOCUS selects the oracle)"""
import vlib
from checks import matchuni as mu, matchrun as mr
from checks.common import Case, observe, judge_case

LEVEL = "fault_enumeration"
PROP = "C12"


def judge_match(prop, m, v):
    """static verdicts vs brute force -> list of (kind, description)"""
    out = []
    first, reachable, redundant = mu.brute(m)
    vals = mu.values(m.t)
    unmatched = [x for x, f in zip(vals, first) if f is None]
    if prop == "C12":
        if not v["ne"] and unmatched:
            out.append(("accepted-nonexhaustive", "accepted although value %s matches no arm" % mu.vexpr(m.t, unmatched[0])))
        if v["ne"] and not unmatched:
            out.append(("false-nonexhaustive", "reported non-exhaustive (missing %s) although every value matches an arm" % v["witnesses"]))
        if v["ne"] and unmatched:
            for w in v["witnesses"]:
                p = mu.parse_witness(m.t, w)
                if p is None:
                    continue
                if not any(mu.matches(m.t, p, x) for x in unmatched):
                    out.append(("bad-witness", "listed missing case `%s` covers no unmatched value (unmatched: %s)" % (
                        w, [mu.vexpr(m.t, x) for x in unmatched[:4]])))
    if prop == "C13":
        got = sorted(set(v["redundant"]))
        if got != redundant:
            out.append(("redundancy", "compiler reports redundant arms %s, brute force says %s" % (got, redundant)))
    return out


def run_focus(ctx, prop):
    decls, ms = mu.gen_matches(ctx.rng.fork("matches"), ctx.tier)
    verd, problems = mr.analyse(ctx, decls, ms)
    byidx = {m.idx: m for m in ms}
    nstatic = 0
    samples = []
    kinds = {}
    for idx, v in verd.items():
        m = byidx[idx]
        nstatic += 1
        for kind, what in (judge_match(prop, m, v) if prop in ("C12", "C13") else []):
            kinds[kind] = kinds.get(kind, 0) + 1
            sig = "%s %s :: %s" % (prop, m.key(), kind)
            job, spans = mr.check_file_job("confirm", decls, [m])

            def judge(res, m=m, sig=sig, kind=kind, spans=spans, prop=prop):
                vv, other = mr.verdicts(res, [m], spans)
                if vv is None:
                    return []
                return [(sig, w) for k, w in judge_match(prop, m, vv[0]) if k == kind]
            ctx.candidate(sig, what, job, judge)
    # matches the checker could not analyse at all (compiler panic or an unrelated diagnostic)
    for m, other in problems:
        if m is not None and any("panic" in o for o in other):
            sig = "%s %s :: checker-panic" % (prop, m.key())
            job, spans = mr.check_file_job("confirm", decls, [m])
            ctx.candidate(sig, "the checker panicked on this match: %s" % other[:1], job,
                          lambda res, sig=sig: [(sig, str(res.get("lsp", {}).get("panic")))] if "panic" in res.get("lsp", {}) else [])
    # run-time phase on the matches the compiler accepts without any diagnostic
    ok = [byidx[i] for i, v in verd.items() if not v["ne"] and not v["redundant"]]
    cases = []
    for m in ok:
        c = mr.runtime_cases([m])[0]
        c.decls = decls + mu.emit_run_case(m)
        cases.append(c)
    nrun = 0
    observed = set()
    if prop in ("C12", "C14"):
        # one program per group of matches would clash on `mm`; give every case its own function name
        for n, c in enumerate(cases):
            c.decls = decls_once(decls) + mu.emit_run_case(c.meta).replace("fn mm(", "fn mm%d(" % n)
            c.body = c.body.replace("mm(", "mm%d(" % n)
        from checks.common import run_cases

        def sig_of(c):
            return "%s %s :: runtime" % (prop, c.key)
        nrun, observed, failures = run_cases(ctx, prop.lower() + "r", cases, sig_of, per_prog=60, extra_decls="")
        kinds["runtime-failures"] = len(failures)
    if len(samples) < 3 and ms:
        for m in ms[:2] + ms[-1:]:
            samples.append({"match": m.key(), "verdict": verd.get(m.idx)})
    ctx.coverage(
        evaluations=nstatic + nrun,
        distinct_nontrivial=len({byidx[i].key() for i in verd}),
        rule="match = (scrutinee type, ordered arm list, enclosing context fn/lambda/task); all arm lists up to 3 arms (4 on small "
             "types in thorough) over a per-type pattern pool are enumerated (pools above the cap are sampled by VERIF_SEED); "
             "distinct = distinct (type, arms, context) whose checker verdict was obtained and compared with the brute-force "
             "matcher over the type's value universe; accepted matches are then run on every value of the universe",
        samples=samples,
        matches_checked=nstatic,
        accepted_and_run=len(ok),
        runtime_runs=nrun,
        unanalysable=len([1 for m, _o in problems if m is not None]),
        unanalysable_samples=[(m.key() if m else None, o[:1]) for m, o in problems[:5]],
        finding_kinds=kinds,
        exhaustive=False,
    )
    ctx.need(nstatic >= 0.9 * len(ms), "only %d of %d matches could be analysed" % (nstatic, len(ms)))


_DECL_CACHE = {}


def decls_once(decls):
    return decls


def run(ctx):
    run_focus(ctx, PROP)


def replay(ctx, rep):
    res = ctx.ex.run_alone(rep["job"])
    print(__import__("json").dumps(res)[:3000])
