"""C32 Runtime errors report the failing file, line and call stack.

The generator builds a call chain of depth 1..6 across 1..4 files through free functions,
member functions, interface methods, lambdas and functions with default arguments; each frame has
filler lines, its call to the next frame on a line of its own (as a statement, a `let`, an
argument of println, inside a for/while body, a match arm or an if branch) and the innermost frame
executes one failing operation (index out of bounds, division by zero, overflow, panic, `!`).
The generator therefore knows the expected report exactly: kind, (file, line, function) of the
failing operation and (file, line, enclosing function) of every active call site, innermost
first. Observed: the VmError text. Every program runs with the optimizer on and off and at two
step budgets."""
import vlib

LEVEL = "exploration"
KINDS = ["fn", "fn", "member", "iface", "lambda", "default"]
PROP = "C32"

FAILS = [
    ("oob", "let bad = xs[n + 50]", None),
    ("oob-assign", "xs[n + 50] = 1", None),
    ("divzero", "let bad = 100 / (n - n)", None),
    ("modzero", "let bad = 100 % (n - n)", None),
    ("overflow", "let bad = 9223372036854775807 + n + 1", None),
    ("overflow-mul", "let bad = (n + 4611686018427387904) * 4", None),
    ("panic", 'panic("boom" .. n)', "boom"),
    ("unwrap", "let bad = none_of(n)!", "cannot unwrap option.none"),
    ("pop-empty", "let bad = empty_of(n).pop()", None),
]
KIND_OF = {"oob": "oob", "oob-assign": "oob", "divzero": "divzero", "modzero": "divzero", "overflow": "overflow", "overflow-mul": "overflow",
           "panic": "panic", "unwrap": "panic", "pop-empty": "oob"}


class File:
    def __init__(self, name):
        self.name = name
        self.lines = []

    def add(self, s):
        self.lines.append(s)
        return len(self.lines)   # 1-based line number of the added line


def gen_case(r):
    """-> dict(files, expect_kind, expect_msg, expect_locs, features)"""
    nfiles = r.range(1, 4)
    libs = [File("lib%d.abra" % i) for i in range(nfiles - 1)]
    main = File("main.abra")
    for lf in libs:
        main.add("use %s" % lf.name[:-5])
    # libraries may call into each other (later frames live anywhere): every lib imports the others
    for i, lf in enumerate(libs):
        for other in libs[:i]:
            lf.add("use %s" % other.name[:-5])
    feats = set()
    depth = r.range(1, 6)
    fail_name, fail_stmt, fail_msg = r.choice(FAILS)
    feats.add("fail-" + fail_name)
    helpers = File("helpers")  # placed into the file of the innermost frame
    files = libs + [main]

    def filler(f, ind, k):
        for _ in range(k):
            c = r.below(5)
            if c == 0:
                f.add(ind + "// note " + r.choice(["a", "é€", "x = 1", "{"]))
            elif c == 1:
                f.add("")
            elif c == 2:
                f.add(ind + "let fz%d = n * %d" % (r.range(0, 999), r.range(1, 9)))
            elif c == 3:
                f.add(ind + 'let fs%d = "s" .. n' % r.range(0, 999))
            else:
                f.add(ind + "let fa%d = [n, n + 1]" % r.range(0, 999))

    # frames from innermost (1) to outermost (depth); frame d is called by frame d+1; the outermost is called from <main>
    frames = []
    fidx = 0
    for d in range(1, depth + 1):
        kind = r.choice(KINDS)
        # a callee's file must be visible from its caller's file: file indices never decrease outwards
        fidx = r.range(fidx, len(files) - 1) if r.chance(50) else fidx
        f = files[fidx]
        frames.append({"d": d, "kind": kind, "file": f, "name": "%s%d" % ({"fn": "fun", "member": "meth", "iface": "imeth", "lambda": "lam", "default": "dfun"}[kind], d)})
    # a lambda frame lives inside its caller's body, so it is emitted there; build bodies bottom-up as
    # lists of lines, then place them
    expect = []           # (file, line, function name) innermost first
    host = main
    for fr in reversed(frames):
        if fr["kind"] == "lambda":
            fr["file"] = host
        host = fr["file"]

    def call_expr(fr, arg):
        k = fr["kind"]
        if k in ("fn",):
            return "%s(%s)" % (fr["name"], arg)
        if k == "default":
            return "%s(%s)" % (fr["name"], arg)      # second parameter defaulted
        if k == "member":
            return "Holder%d(%s).%s(1)" % (fr["d"], arg, fr["name"])
        if k == "iface":
            return "Tag%d(%s).%s()" % (fr["d"], arg, fr["name"])
        if k == "lambda":
            return "%s(%s)" % (fr["name"], arg)
        raise ValueError(k)

    def body_lines(fr, inner, ind):
        """lines of the body of frame fr (list of (text, marker)); marker 'fail' / 'call' on the line
        whose number must be reported"""
        out = []
        pre = r.range(0, 3)
        for _ in range(pre):
            out.append((None, "filler"))
        if inner is None:
            stmt, mark = fail_stmt, "fail"
        else:
            form = r.choice(["let", "stmt", "println", "ret"])
            ce = call_expr(inner, "n + 1")
            stmt = {"let": "let r%d = %s" % (fr["d"], ce), "stmt": "%s" % ce, "println": "println(%s)" % ce, "ret": "let q%d = 1 + %s" % (fr["d"], ce)}[form]
            mark = "call"
            feats.add("callform-" + form)
        wrap = r.choice(["plain", "plain", "for", "while", "match", "if", "block"])
        if wrap in ("if", "match") and inner is not None and stmt == ce:
            stmt = "let r%d = %s" % (fr["d"], ce)   # branches must all be void
        feats.add("in-" + wrap)
        if wrap == "plain":
            out.append((stmt, mark))
        elif wrap == "for":
            out.append(("for it%d in [1, 2] {" % fr["d"], None))
            out.append(("  " + stmt, mark))
            out.append(("}", None))
        elif wrap == "while":
            out.append(("var wv%d = 0" % fr["d"], None))
            out.append(("while wv%d < 2 {" % fr["d"], None))
            out.append(("  wv%d = wv%d + 1" % (fr["d"], fr["d"]), None))
            out.append(("  " + stmt, mark))
            out.append(("}", None))
        elif wrap == "match":
            out.append(("match n - n {", None))
            out.append(("  1 -> {", None))
            out.append(("    println(\"no\")", None))
            out.append(("  }", None))
            out.append(("  _ -> {", None))
            out.append(("    " + stmt, mark))
            out.append(("  }", None))
            out.append(("}", None))
        elif wrap == "if":
            out.append(("if n > -1000 {", None))
            out.append(("  " + stmt, mark))
            out.append(("} else {", None))
            out.append(("  println(\"no\")", None))
            out.append(("}", None))
        else:
            out.append(("let blk%d = {" % fr["d"], None))
            out.append(("  " + stmt, mark))
            out.append(("  0", None))
            out.append(("}", None))
        for _ in range(r.range(0, 2)):
            out.append((None, "filler"))
        out.append(("n", None))
        return out

    # emit: innermost first requires knowing where lambdas go. Emit outermost-first recursively.
    def emit_frame(idx, host_file, ind):
        """emit the definition of frames[idx] (0 = innermost). Lambdas are emitted by their caller."""
        fr = frames[idx]
        inner = frames[idx - 1] if idx > 0 else None
        f = fr["file"]
        k = fr["kind"]
        fname = {"lambda": "<lambda>"}.get(k, fr["name"])
        if k == "fn":
            f.add(ind + "fn %s(n: int) -> int {" % fr["name"])
        elif k == "default":
            f.add(ind + "fn %s(n: int, extra: int = 5) -> int {" % fr["name"])
            feats.add("default-arg-call")
        elif k == "member":
            f.add(ind + "type Holder%d = {" % fr["d"])
            f.add(ind + "  n: int")
            f.add(ind + "}")
            f.add(ind + "extend Holder%d {" % fr["d"])
            f.add(ind + "  fn %s(self, one: int) -> int {" % fr["name"])
            f.add(ind + "    let n = self.n")
            ind = ind + "  "
        elif k == "iface":
            f.add(ind + "type Tag%d = {" % fr["d"])
            f.add(ind + "  n: int")
            f.add(ind + "}")
            f.add(ind + "interface Iface%d {" % fr["d"])
            f.add(ind + "  fn %s(self) -> int" % fr["name"])
            f.add(ind + "}")
            f.add(ind + "implement Iface%d for Tag%d {" % (fr["d"], fr["d"]))
            f.add(ind + "  fn %s(self) -> int {" % fr["name"])
            f.add(ind + "    let n = self.n")
            ind = ind + "  "
        elif k == "lambda":
            f.add(ind + "let %s = (n: int) -> {" % fr["name"])
        bind = ind + "  "
        if idx == 0:
            f.add(bind + "let xs = [1, 2, 3]")
        lines = body_lines(fr, inner, bind)
        for text, mark in lines:
            if mark == "filler":
                filler(f, bind, 1)
                continue
            if mark == "call" and inner is not None and inner["kind"] == "lambda":
                # the lambda is defined right before the call, in this body
                emit_frame(idx - 1, f, bind)
            ln = f.add(bind + text)
            if mark in ("fail", "call"):
                fr["line"] = ln
        f.add(ind + "}")
        if k in ("member", "iface"):
            f.add(ind[:-2] + "}")
        fr["fname"] = fname

    outer = frames[-1]
    # definitions innermost first, each contiguous; a lambda frame is emitted inside its caller's body
    for idx, fr in enumerate(frames):
        if fr["kind"] != "lambda":
            emit_frame(idx, None, "")
    if outer["kind"] == "lambda":
        emit_frame(len(frames) - 1, main, "")
    main.add('println("start")')
    for _ in range(r.range(0, 2)):
        main.add("// top-level filler")
    form = r.choice(["let", "stmt", "println"])
    ce = call_expr(outer, "%d" % r.range(0, 5))
    top_line = main.add({"let": "let result = %s" % ce, "stmt": ce, "println": "println(%s)" % ce}[form])
    main.add('println("unreachable")')
    # helper functions (used by some failing statements) go at the end of the innermost frame's file
    hf = frames[0]["file"]
    hf.add("fn none_of(n: int) -> option<int> {")
    hf.add("  if n > -1000 { option.none } else { option.some(n) }")
    hf.add("}")
    hf.add("fn empty_of(n: int) -> array<int> {")
    hf.add("  let e: array<int> = []")
    hf.add("  e")
    hf.add("}")
    for fr in frames:
        expect.append((fr["file"].name, fr["line"], fr["fname"]))
    expect.append(("main.abra", top_line, "<main>"))
    for fr in frames:
        feats.add("frame-" + fr["kind"])
    feats.add("depth-%d" % depth)
    feats.add("files-%d" % nfiles)
    return {"files": {f.name: "\n".join(f.lines) + "\n" for f in files}, "kind": KIND_OF[fail_name], "msg": fail_msg,
            "locs": expect, "features": sorted(feats), "fail": fail_name}


RUNS = [{"max_steps": 400000}, {"max_steps": 400000, "noopt": True}, {"max_steps": 400000, "budget": {"k": 1}}, {"max_steps": 400000, "budget": {"k": 7}, "noopt": True}]


def judge(case, res):
    cr = vlib.crash_of(res)
    if cr:
        return [("abort", cr[1])]
    comp = res.get("compile", {})
    if not comp.get("ok"):
        return [("nocompile", "generated program did not compile: %s" % (comp.get("panic") or comp.get("errors", "")[:400]))]
    out = []
    for spec, run in zip(RUNS, res.get("runs", [])):
        how = "optimizer %s, budget %s" % ("off" if spec.get("noopt") else "on", (spec.get("budget") or {}).get("k", "max"))
        if run.get("status") != "error":
            out.append(("no-error", "run ended with status %s (%s) instead of the runtime error, %s" % (run.get("status"), run.get("panic"), how)))
            continue
        kind, msg, locs = vlib.parse_vm_error(run.get("err"))
        if kind != case["kind"] or (case["msg"] and not (msg or "").startswith(case["msg"])):
            out.append(("kind", "expected %s %r, reported %s %r, %s" % (case["kind"], case["msg"], kind, msg, how)))
            continue
        got = [(f, l, fn) for (f, l, fn) in locs if not f.endswith("prelude.abra")]
        exp = case["locs"]
        if got != exp:
            cls = "location" if got[:1] != exp[:1] else "traceback"
            first = next((i for i, (g, e) in enumerate(zip(got, exp)) if g != e), min(len(got), len(exp)))
            out.append((cls, "entry %d: reported %s, expected %s (reported %s; expected %s), %s" % (
                first, got[first] if first < len(got) else None, exp[first] if first < len(exp) else None, got, exp, how)))
    seen, uniq = set(), []
    for c, w in out:
        if c not in seen:
            seen.add(c)
            uniq.append((c, w))
    return uniq


def run(ctx):
    n = 2500 if ctx.quick else 40000
    r0 = vlib.Rng(ctx.seed * 3203 + 32)
    cases = [gen_case(r0.fork(i)) for i in range(n)]
    jobs = [{"id": "e%06d" % i, "files": c["files"], "runs": RUNS} for i, c in enumerate(cases)]
    results = ctx.run(jobs)
    evals = 0
    distinct = set()
    feats = {}
    frames_checked = 0
    for c, job in zip(cases, jobs):
        res = results[job["id"]]
        found = judge(c, res)
        for cls, what in found:
            # signature: the shape of the chain, not the random filler
            shape = "%s|%s" % (c["fail"], ">".join(f for f in c["features"] if f.startswith("frame-") or f == "default-arg-call"))
            sig = "%s %s [%s] %s" % (PROP, cls, shape, vlib.hhex("".join(c["files"].values()))[:8])
            ctx.candidate(sig, what + "\n--- files ---\n" + "\n".join("## %s\n%s" % kv for kv in c["files"].items()), job,
                          lambda r, c=c, sig=sig, cls=cls: [(sig, w) for k, w in judge(c, r) if k == cls])
        if res.get("compile", {}).get("ok"):
            evals += len(res.get("runs", []))
            if not found:
                distinct.add(job["id"])
                frames_checked += len(c["locs"]) * len(RUNS)
                for f in c["features"]:
                    feats[f] = feats.get(f, 0) + 1
    ctx.coverage(
        evaluations=evals,
        distinct_nontrivial=len(distinct),
        rule="evaluation = one failing run (optimizer on/off x two budgets per program); distinct = generated programs whose reported "
             "kind, failure location and complete traceback equalled the generator's expectation in all runs",
        samples=[{"files": cases[0]["files"], "expected_kind": cases[0]["kind"], "expected_traceback": cases[0]["locs"]}],
        traceback_entries_checked=frames_checked,
        features=dict(sorted(feats.items())),
    )
    ctx.need(len(distinct) >= 300, "fewer than 300 programs with a fully matching report")


def replay(ctx, rep):
    res = ctx.ex.run_alone(rep["job"])
    print(__import__("json").dumps(res)[:3000])
