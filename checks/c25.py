"""C25 Sorting yields a sorted permutation, stably for sort_by / sort_by_key.

Oracle: python's stable sorted() on (key, original index) elements whose comparator looks at the
key only. Lengths cover 0..40 and the 32-element run / merge boundaries (63..66, 95..98,
127..130, 255..258, thorough up to 1030); inputs sorted / reversed / organ-pipe / random with
duplicate-heavy and wide key ranges; each case runs under the VM's own GC pacing and under a
seeded random pacing with the quarantine monitor."""
from checks.common import Case, run_cases

LEVEL = "exploration"


def lengths(quick):
    ls = list(range(0, 41)) + [63, 64, 65, 66, 95, 96, 97, 98, 127, 128, 129, 130]
    if quick:
        ls += [255, 257]
    else:
        ls += [191, 192, 193, 255, 256, 257, 258, 511, 512, 513, 1023, 1024, 1025, 1030]
    return ls


def keys_for(r, n, shape, krange):
    hi = {"2": 2, "5": 5, "n": max(n, 1), "big": 10 ** 9}[krange]
    if shape == "random":
        return [r.below(hi) for _ in range(n)]
    if shape == "sorted":
        return sorted(r.below(hi) for _ in range(n))
    if shape == "reversed":
        return sorted((r.below(hi) for _ in range(n)), reverse=True)
    if shape == "organ":
        a = sorted(r.below(hi) for _ in range(n))
        return a[::2] + a[1::2][::-1]
    if shape == "const":
        return [3] * n
    raise ValueError(shape)


def fmt_pairs(ps):
    return "[ " + ", ".join("(%d, %d)" % p for p in ps) + " ]"


def run(ctx):
    r = ctx.rng.fork("c25")
    cases = []
    for n in lengths(ctx.quick):
        shapes = ["random", "sorted", "reversed", "organ", "const"]
        for shape in shapes:
            for krange in (["2", "n"] if ctx.quick else ["2", "5", "n", "big"]):
                if ctx.quick and n > 40 and shape in ("sorted", "const") and krange == "n":
                    continue
                ks = keys_for(r, n, shape, krange)
                pairs = [(k, i) for i, k in enumerate(ks)]
                lit = "[" + ", ".join("(%d, %d)" % p for p in pairs) + "]"
                want = sorted(pairs, key=lambda p: p[0])
                if n == 0:
                    continue  # rendering of an empty array is not documented; covered below through len()
                which = r.below(3)
                if which == 0:
                    body = ("let xs: array<(int, int)> = %s\nxs.sort_by((a, b) -> { let (ka, ia) = a\n let (kb, ib) = b\n ka <= kb })\nprintln(xs)" % lit)
                    exp = fmt_pairs(want) + "\n"
                    kind = "sort_by"
                elif which == 1:
                    body = ("let xs: array<(int, int)> = %s\nxs.sort_by_key(a -> { let (ka, ia) = a\n ka })\nprintln(xs)" % lit)
                    exp = fmt_pairs(want) + "\n"
                    kind = "sort_by_key"
                else:
                    body = "let xs: array<int> = [%s]\nxs.sort()\nprintln(xs)" % ", ".join(str(k) for k in ks)
                    exp = "[ " + ", ".join(str(k) for k in sorted(ks)) + " ]\n"
                    kind = "sort"
                cases.append(Case("%s n=%d shape=%s keys=%s h=%x" % (kind, n, shape, krange, hash(tuple(ks)) & 0xFFFF), body, ("out", exp)))
    # other element types / empty arrays
    cases.append(Case("sort strings", 'let xs = ["b", "a", "", "ab", "B", "é", "a"]\nxs.sort()\nprintln(xs)', ("out", "[ , B, a, a, ab, b, é ]\n")))
    cases.append(Case("sort tuples", 'let xs = [(2, "b"), (1, "z"), (2, "a"), (1, "a")]\nxs.sort()\nprintln(xs)', ("out", "[ (1, a), (1, z), (2, a), (2, b) ]\n")))
    cases.append(Case("sort empty", "let xs: array<int> = []\nxs.sort()\nprintln(xs.len())", ("out", "0\n")))
    cases.append(Case("sort_by empty", "let xs: array<int> = []\nxs.sort_by((a, b) -> a <= b)\nprintln(xs.len())", ("out", "0\n")))
    cases.append(Case("sort_by descending", "let xs = [3, 1, 2, 3, 0]\nxs.sort_by((a, b) -> a >= b)\nprintln(xs)", ("out", "[ 3, 3, 2, 1, 0 ]\n")))

    def specs(c):
        return [{"max_steps": 20_000_000}, {"max_steps": 20_000_000, "quarantine": True, "reach": True,
                                            "gc": {"plan": "random", "seed": 5 + len(c.key), "pm": 8, "max": 4096}}]
    nruns, observed, failures = run_cases(ctx, "c25", cases, lambda c: "C25 " + c.key, per_prog=20, run_specs_for=specs)
    ctx.coverage(
        evaluations=nruns,
        distinct_nontrivial=len(observed),
        rule="case = (method, length, input shape, key range); elements are (key, original index) so stability is observable; every case "
             "executed under default GC pacing and under a seeded random pacing with quarantine; distinct = distinct cases compared "
             "with python's stable sort",
        samples=[{"case": c.key, "program": c.body[:400], "expected": c.expect[1][:200]} for c in (cases[3], cases[-1])],
        lengths=lengths(ctx.quick),
        failures=failures[:20],
    )
    ctx.need(len(observed) >= 0.98 * len({c.key for c in cases}), "only %d of %d cases observed" % (len(observed), len(cases)))


def replay(ctx, rep):
    res = ctx.ex.run_alone(rep["job"])
    print(__import__("json").dumps(res)[:3000])
