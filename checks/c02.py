"""C02 Compiled programs compute what the language reference specifies.

Translation validation by execution: every generated program is compiled and run by the real
compiler/VM and its (printed output, final value, runtime error kind/message) is compared with
the reference interpreter of the documented semantics (checks/progen.py). Disagreements are
shrunk (AST-level delta debugging) and re-confirmed alone in a fresh process."""
import vlib
from checks import progen, proglib, corpus

LEVEL = "translation_validation"
PROP = "C02"


def job_of(jid, src):
    return {"id": jid, "files": {"main.abra": src}, "runs": [{"max_steps": 1500000}]}


def judge_prog(prog, res):
    """re-derive the verdict for one program from an executor result"""
    src, _ = progen.emit(prog)
    comp = res.get("compile", {})
    cr = vlib.crash_of(res)
    if cr:
        return ("crash", cr[1])
    if not comp.get("ok"):
        if comp.get("panic"):
            return ("compile-panic", "compiler panic %s" % vlib.panic_sig(comp["panic"]))
        return None  # rejected programs are outside the quantifier
    try:
        ref = progen.interpret(prog)
    except (progen.Unsupported, progen.TooBig, RecursionError):
        return None
    return proglib.compare(ref, prog["final_ty"], res["runs"][0])


def shrink(ctx, prog, cls):
    def fails(cands):
        jobs = []
        for i, c in enumerate(cands):
            try:
                s, _ = progen.emit(c)
            except Exception:
                s = "@@"
            jobs.append(job_of("s%04d" % i, s))
        rs = ctx.run(jobs)
        out = []
        for i, c in enumerate(cands):
            try:
                v = judge_prog(c, rs["s%04d" % i])
            except Exception:
                v = None
            out.append(bool(v) and v[0] == cls)
        return out
    return progen.shrink(prog, fails)


def run(ctx):
    n = 6000 if ctx.quick else 120000
    evals = 0
    agree = 0
    rejected = 0
    distinct = set()
    feats = {}
    samples = []
    disagreements = []
    unsup_total = 0
    chunk = 6000
    for start in range(0, n, chunk):
        items, unsup = proglib.gen_batch(ctx.seed * 7919 + 11, min(chunk, n - start), {"size": 40 if ctx.quick else 60}, start=start)
        unsup_total += unsup
        jobs = [job_of("p%06d" % idx, src) for (idx, prog, src, ref) in items]
        results = ctx.run(jobs)
        for (idx, prog, src, ref) in items:
            res = results["p%06d" % idx]
            comp = res.get("compile", {})
            if not comp.get("ok") and not comp.get("panic") and not vlib.crash_of(res):
                rejected += 1
                continue
            evals += 1
            if comp.get("ok"):
                v = proglib.compare(ref, prog["final_ty"], res["runs"][0])
            else:
                v = judge_prog(prog, res)
            if v is None:
                agree += 1
                distinct.add(vlib.h64(proglib.normalize(src)))
                for f in prog["features"]:
                    feats[f] = feats.get(f, 0) + 1
                if len(samples) < 2:
                    samples.append({"program": src, "reference": {"output": ref["output"], "error": ref["err"], "final": progen.render_top(ref["final"])}})
            else:
                disagreements.append((idx, prog, src, v))
    # shrink + register (bounded)
    seen_cls = {}
    for (idx, prog, src, v) in disagreements[:(8 if ctx.quick else 40)]:
        small = shrink(ctx, prog, v[0])
        ssrc, _ = progen.emit(small)
        sig = "%s %s %s" % (PROP, v[0], vlib.hhex(proglib.normalize(ssrc)))
        if sig in seen_cls:
            continue
        seen_cls[sig] = True
        ctx.candidate(sig, "%s\n--- minimal program ---\n%s" % (v[1], ssrc), dict(job_of("confirm", ssrc), prog=None),
                      lambda res, small=small, sig=sig: [(sig, judge_prog(small, res)[1])] if judge_prog(small, res) else [])
    ncorp, nobs = corpus.run_corpus(ctx, PROP)
    ctx.coverage(
        programs=evals + ncorp,
        evaluations=evals + ncorp,
        disagreements_checked=len(disagreements),
        distinct_nontrivial=len(distinct),
        rule="programs drawn from the typed generator (checks/progen.py) that the compiler accepted and that stay inside the "
             "reference interpreter's fragment; distinct = distinct alpha-renamed sources whose execution agreed with the "
             "reference on output, final value and error; plus the fixed corpus cases tagged C02",
        samples=samples,
        agreeing=agree,
        rejected_by_compiler=rejected,
        outside_reference_fragment=unsup_total,
        constructs=dict(sorted(feats.items())),
        corpus_cases=ncorp,
    )
    total = evals + rejected
    ctx.need(total > 0 and rejected <= 0.03 * total, "compiler rejected %d of %d generated programs (acceptance floor 97%%)" % (rejected, total))
    ctx.need(agree >= 100, "fewer than 100 programs observed agreeing")


def replay(ctx, rep):
    res = ctx.ex.run_alone(rep["job"])
    print(__import__("json").dumps(res)[:3000])
