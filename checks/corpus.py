"""Fixed corpus: named, deterministic programs with the outcome the documentation specifies.

Each case is (name, properties, source, expectation). They pin down behaviours that the random
generators stay away from (because a recorded defect lives there) or that deserve a permanent
regression case; a failing case is reported under the stable signature "<PROP> corpus:<name>",
which is what known_findings.json refers to."""
import vlib
from checks.common import observe, judge_case, Case

CASES = []


def case(name, props, src, expect):
    CASES.append((name, props, src, expect))


def run_corpus(ctx, prop):
    sel = [c for c in CASES if prop in c[1]]
    if not sel:
        return 0, 0
    jobs = []
    for (name, props, src, expect) in sel:
        jobs.append({"id": "corpus-" + name, "files": {"main.abra": src}, "std": True, "runs": [{"max_steps": 2000000}]})
    results = ctx.run(jobs)
    nobs = 0
    for (name, props, src, expect), job in zip(sel, jobs):
        def judge(res, name=name, expect=expect):
            sig = "%s corpus:%s" % (prop, name)
            cr = vlib.crash_of(res)
            if cr:
                return [(sig, cr[1])]
            comp = res.get("compile", {})
            if expect[0] == "reject":
                if comp.get("panic"):
                    return [(sig, "compiler panic %s" % vlib.panic_sig(comp["panic"]))]
                if comp.get("ok"):
                    return [(sig, "program was accepted but should be rejected with a diagnostic")]
                return []
            if not comp.get("ok"):
                if comp.get("panic"):
                    return [(sig, "compiler panic %s" % vlib.panic_sig(comp["panic"]))]
                if expect[0] == "accept_or_reject":
                    return []
                return [(sig, "compiler rejected: %s" % comp.get("errors", "")[:300])]
            if expect[0] == "accept_or_reject":
                expect2 = expect[1]
            else:
                expect2 = expect
            w = judge_case(Case(name, "", expect2), observe(res["runs"][0]))
            return [(sig, w)] if w else []
        nobs += 1
        for sig, what in judge(results[job["id"]]):
            ctx.candidate(sig, what, job, judge)
    return len(sel), nobs


# ---- fixed defects (regression cases) ---------------------------------------------------
case("match-scrutinee-block-local", ["C02", "C03"],
     "let r = match { let t6 = 4; t6 } { 4 -> 5, _ -> 2 }\nprintln(r)\n", ("out", "5\n"))
case("assign-target-block-local", ["C02", "C03"],
     "let xs = [1, 2, 3]\n{ let k = 1; xs }[{ let j = 2; j }] = 9\nprintln(xs)\n", ("accept_or_reject", ("out", "[ 1, 2, 9 ]\n")))
case("variant-void-field-pattern", ["C02", "C14"],
     """type En3 =
  | Va03(bool, void)
  | Va13(void)
  | Va23(void, void)
  | Va33(int, string)
fn f(e: En3) -> int {
  match e { .Va03(a, _) -> if a { 1 } else { 2 }, .Va13(m) -> 3, .Va23(p, q) -> 4, .Va33(i, s) -> i }
}
println(f(En3.Va03(true, nil)) .. f(En3.Va03(false, nil)) .. f(En3.Va13(nil)) .. f(En3.Va23(nil, nil)) .. f(En3.Va33(7, "x")))
for i in [true, (match En3.Va13(nil) { .Va13(m23) -> true, _ -> false })] {
  if i { println("t") } else { println("f") }
}
""", ("out", "12347\nt\nt\n"))

case("generic-identity-at-void", ["C01", "C02", "C22"],
     "fn idt(x: T) -> T { x }\nidt(nil)\nprintln(\"a\")\nfor i in [1, 2] {\n  idt(nil)\n  println(idt(i))\n}\nprintln(idt(nil))\n", ("out", "a\n1\n2\nnil\n"))
case("unwrap-void-payload-in-loop", ["C01", "C02", "C23"],
     "fn ov(x: int) -> option<void> { if x == 4 { option.none } else { option.some(nil) } }\nfor i in [1, 2] {\n  ov(i)!\n  println(i)\n}\n", ("out", "1\n2\n"))

case("index-into-array-of-void", ["C01", "C02", "C26"],
     "let xs = [nil, nil]\nprintln(\"<\" .. xs[0] .. \">\")\nlet e = xs[1]\nprintln(e)\nxs[0] = nil\nxs.push(nil)\nprintln(xs.len())\nlet t = (1, xs[0], \"a\")\nprintln(t)\nprintln(xs[5])\n",
     ("err", "oob", None, "<nil>\nnil\n3\n(1, nil, a)\n"))
case("generic-index-at-void", ["C01", "C02", "C22"],
     "fn firstg(gx: T ToString, ga: array<T>) -> string {\n  \"<\" .. ga[0] .. \">\"\n}\nprintln(firstg(nil, [nil, nil]))\nprintln(firstg(5, [7, 8]))\nprintln(firstg(nil, [nil]))\n", ("out", "<nil>\n<7>\n<nil>\n"))

case("if-without-else-branch-of-type-never-in-generic-call", ["C01", "C02", "C22"],
     "let gf2: bool = false\nfn genv(gf: int -> T, gn: int, gx: T) -> array<T> {\n  println(gn)\n  [gf(0), gx]\n}\nlet xa = genv((p: int) -> { if gf2 { panic(\"boom\") } }, 8, nil)\nprintln(xa)\n", ("out", "8\n[ nil, nil ]\n"))
# ---- open defect: a type variable instantiated at `never` next to a void argument ------------
case("generic-never-with-void-argument", ["C01", "C02"],
     "let gf2: bool = false\nfn genv(gf: int -> T, gn: int, gx: T) -> array<T> {\n  println(gn)\n  [gf(0), gx]\n}\nlet xa = genv((p: int) -> { if gf2 { panic(\"boom\") } else { panic(\"bam\") } }, 8, nil)\n", ("err", "panic", "bam", "8\n"))

# ---- open defect zone: break/continue out of an operand position -------------------------
case("jump-from-operand-for-continue", ["C01", "C02"],
     "var acc = 0\nfor i in 4 {\n  acc = acc + { if i == 2 { continue }; i }\n}\nprintln(acc)\n", ("out", "4\n"))
case("jump-from-operand-for-break", ["C01", "C02"],
     "var acc = 0\nfor i in 4 {\n  acc = acc + { if i == 2 { break }; i }\n}\nprintln(acc)\n", ("out", "1\n"))
case("jump-from-operand-while-continue", ["C01", "C02"],
     "var acc = 0\nvar i = 0\nwhile i < 4 {\n  i += 1\n  acc = acc + { if i == 2 { continue }; i }\n}\nprintln(acc)\nacc\n", ("out", "8\n"))
case("jump-from-operand-while-break-in-fn", ["C01", "C02"],
     "fn f() -> int {\n  var acc = 0\n  var i = 0\n  while i < 4 {\n    i += 1\n    acc = acc + { if i == 3 { break }; i }\n  }\n  acc\n}\nprintln(f())\n", ("out", "3\n"))
case("jump-from-operand-arg-continue", ["C01", "C02"],
     "fn g(a: int, b: int) -> int = a * 10 + b\nvar acc = 0\nfor i in [1, 2, 3] {\n  acc = acc + g(i, { if i == 2 { continue }; 1 })\n}\nprintln(acc)\n", ("out", "42\n"))
case("jump-from-operand-nested-for", ["C01", "C02"],
     "var acc = 0\nfor i in 3 {\n  for j in 3 {\n    acc = acc + (i * 10 + { if j == 1 { continue }; j })\n  }\n}\nprintln(acc)\n", ("out", "66\n"))
case("return-from-operand", ["C01", "C02", "C23"],
     "fn f(n: int) -> int {\n  let x = 1 + { if n > 2 { return 100 }; n }\n  x\n}\nprintln(f(1) .. \" \" .. f(5))\nfor i in 2 { println(f(i + 2)) }\n", ("out", "2 100\n3\n100\n"))


# ---- pairs of consecutive string operations (state left behind by the resumable, one-byte-per-
# step comparison must not leak into the next operation; the second operation sits in a call
# argument so that leaked operands would shift the arguments)
def _strop_cases():
    import operator
    ops = {"==": operator.eq, "!=": operator.ne, "<": operator.lt, "<=": operator.le, ">": operator.gt, ">=": operator.ge}
    pairs = [("abra", "abra"), ("ab", "abra"), ("abra", "ab"), ("abra", "abrz"), ("", "a"), ("left", "right")]
    n = 0
    for o1, f1 in ops.items():
        for (a, b) in pairs:
            for o2, f2 in ops.items():
                (u, v) = pairs[(n * 5 + 3) % len(pairs)]
                n += 1
                src = ("fn describe(n: int, same: bool) -> int {\n  if same { n + 1 } else { n - 1 }\n}\n"
                       "let a = \"%s\"\nlet b = \"%s\"\nlet ok = a %s b\nlet u = \"%s\"\nlet v = \"%s\"\n"
                       "let r = describe(41, u %s v)\nprintln(r)\nprintln(ok)\nprintln(u .. v)\n" % (a, b, o1, u, v, o2))
                exp = "%d\n%s\n%s\n" % (42 if f2(u.encode(), v.encode()) else 40, "true" if f1(a.encode(), b.encode()) else "false", u + v)
                case("strop %s %s|%s then %s %s|%s" % (o1, a, b, o2, u, v), ["C01", "C17"], src, ("out", exp))


_strop_cases()
