"""Generators for task/channel programs with a python-side model (C08, C09, C10 part B, C11).

Networks: every task (and main) is a straight-line script of channel writes, channel reads, busy
work and allocation pressure. Messages carry a unique (writer, sequence) identity, so a reader's
report identifies the write it observed. The number of reads on a channel equals the number of
writes, and scripts do not branch on content; enabledness of a read is therefore monotone in the
progress of the other tasks, and a network whose model run completes completes under every
schedule. `deterministic=True` restricts to one writer and one reader per channel (a Kahn
network): then the printed text itself is schedule independent and the model predicts it.
"""
import copy

import vlib
from checks.abra import strlit

DECLS = """type Inner = {
  n: int
}
type Msg = {
  id: int
  tag: string
  xs: array<int>
  inner: Inner
}
type Shape =
  | Dot
  | Circle(int)
  | Rect(int, array<int>)
fn show_msg(m: Msg) -> string = "Msg(" .. m.id .. "," .. m.tag .. "," .. m.xs .. "," .. m.inner.n .. ")"
fn show_shape(s: Shape) -> string {
  match s {
    .Dot -> "Dot",
    .Circle(r) -> "Circle(" .. r .. ")",
    .Rect(w, hs) -> "Rect(" .. w .. "," .. hs .. ")",
  }
}
fn show_oarr(o: option<array<int>>) -> string {
  match o {
    .some(a) -> "some(" .. a .. ")",
    .none -> "none",
  }
}
"""


def r_arr(xs):
    return "[ " + ", ".join(r_any(x) for x in xs) + " ]"


def r_any(v):
    if v is None:
        return "nil"
    if v is True:
        return "true"
    if v is False:
        return "false"
    if isinstance(v, int):
        return str(v)
    if isinstance(v, str):
        return v
    if isinstance(v, list):
        return r_arr(v)
    if isinstance(v, tuple):
        return "(" + ", ".join(r_any(x) for x in v) + ")"
    raise ValueError(v)


class Kind:
    """payload kind: how to build, show and mutate a value, in Abra source and in the model"""
    name = ty = ""
    heap = True

    def mk(self, a, b):  # -> (source expression, model value)
        raise NotImplementedError

    def show(self, v):  # source string expression
        return '("" .. %s)' % v

    def render(self, pv):
        return r_any(pv)

    def mutations(self):  # list of (source statement template with {v} and {n}, python function(pv, n))
        return []


class KInt(Kind):
    name, ty, heap = "int", "int", False

    def mk(self, a, b):
        return "%d" % (a * 1000 + b), a * 1000 + b


class KBool(Kind):
    name, ty, heap = "bool", "bool", False

    def mk(self, a, b):
        return ("true", True) if (a + b) % 2 else ("false", False)


class KVoid(Kind):
    name, ty, heap = "void", "void", False

    def mk(self, a, b):
        return "nil", None


class KStr(Kind):
    name, ty = "string", "string"

    def mk(self, a, b):
        # built at run time, so it is a heap string of the writer
        return '("w" .. %d .. "s" .. %d .. "\\xe9")' % (a, b), "w%ds%dé" % (a, b)

    def show(self, v):
        return v


class KArr(Kind):
    name, ty = "array", "array<int>"

    def mk(self, a, b):
        return "[%d, %d, %d]" % (a, b, a * b), [a, b, a * b]

    def mutations(self):
        return [("{v}.push({n})", lambda pv, n: pv.append(n)),
                ("{v}[0] = {n}", lambda pv, n: pv.__setitem__(0, n)),
                ("{v}.pop()", lambda pv, n: pv.pop())]


class KNested(Kind):
    name, ty = "nested", "array<array<int>>"

    def mk(self, a, b):
        return "[[%d], [%d, %d], [7]]" % (a, b, b + 1), [[a], [b, b + 1], [7]]

    def mutations(self):
        return [("{v}[1].push({n})", lambda pv, n: pv[1].append(n)),
                ("{v}.push([{n}])", lambda pv, n: pv.append([n])),
                ("{v}[0][0] = {n}", lambda pv, n: pv[0].__setitem__(0, n))]


class KStrArr(Kind):
    name, ty = "strarr", "array<string>"

    def mk(self, a, b):
        return '["a" .. %d, "b" .. %d]' % (a, b), ["a%d" % a, "b%d" % b]

    def mutations(self):
        return [('{v}.push("m" .. {n})', lambda pv, n: pv.append("m%d" % n)),
                ('{v}[1] = "z" .. {n}', lambda pv, n: pv.__setitem__(1, "z%d" % n))]


class KTuple(Kind):
    name, ty = "tuple", "(int, array<int>, string)"

    def mk(self, a, b):
        return '(%d, [%d, 5], "t" .. %d)' % (a, b, b), (a, [b, 5], "t%d" % b)

    def mutations(self):
        return [("{{ let (t_a, t_b, t_c) = {v}; t_b.push({n}) }}", lambda pv, n: pv[1].append(n))]


class KMsg(Kind):
    name, ty = "struct", "Msg"

    def mk(self, a, b):
        return 'Msg(%d, "g" .. %d, [%d, %d], Inner(%d))' % (a * 1000 + b, b, a, b, a + b), \
            {"id": a * 1000 + b, "tag": "g%d" % b, "xs": [a, b], "inner": {"n": a + b}}

    def show(self, v):
        return "show_msg(%s)" % v

    def render(self, pv):
        return "Msg(%d,%s,%s,%d)" % (pv["id"], pv["tag"], r_arr(pv["xs"]), pv["inner"]["n"])

    def mutations(self):
        return [("{v}.xs.push({n})", lambda pv, n: pv["xs"].append(n)),
                ("{v}.id = {n}", lambda pv, n: pv.__setitem__("id", n)),
                ("{v}.inner.n = {n}", lambda pv, n: pv["inner"].__setitem__("n", n)),
                ('{v}.tag = "u" .. {n}', lambda pv, n: pv.__setitem__("tag", "u%d" % n)),
                ("{v}.inner = Inner({n})", lambda pv, n: pv.__setitem__("inner", {"n": n}))]


class KShape(Kind):
    name, ty = "enum", "Shape"

    def mk(self, a, b):
        k = (a + b) % 3
        if k == 0:
            return "Shape.Dot", ["Dot"]
        if k == 1:
            return "Shape.Circle(%d)" % (a * 10 + b), ["Circle", a * 10 + b]
        return "Shape.Rect(%d, [%d, %d])" % (a, b, b), ["Rect", a, [b, b]]

    def show(self, v):
        return "show_shape(%s)" % v

    def render(self, pv):
        if pv[0] == "Dot":
            return "Dot"
        if pv[0] == "Circle":
            return "Circle(%d)" % pv[1]
        return "Rect(%d,%s)" % (pv[1], r_arr(pv[2]))

    def mutations(self):
        def mut(pv, n):
            if pv[0] == "Rect":
                pv[2].append(n)
        return [("match {v} {{ .Rect(w_, hs_) -> hs_.push({n}), _ -> {{}} }}", mut)]


class KOArr(Kind):
    name, ty = "option", "option<array<int>>"

    def mk(self, a, b):
        if (a + b) % 3 == 0:
            return "option.none", ["none"]
        return "option.some([%d, %d])" % (a, b), ["some", [a, b]]

    def show(self, v):
        return "show_oarr(%s)" % v

    def render(self, pv):
        return "none" if pv[0] == "none" else "some(%s)" % r_arr(pv[1])

    def mutations(self):
        def mut(pv, n):
            if pv[0] == "some":
                pv[1].append(n)
        return [("match {v} {{ .some(a_) -> a_.push({n}), .none -> {{}} }}", mut)]


class KEmptyArr(KArr):
    """boundary: an array that is EMPTY when it is captured (a copy of it shares nothing either)"""
    name, ty = "emptyarr", "array<int>"
    annotate = True

    def mk(self, a, b):
        return "[]", []

    def mutations(self):
        return [("{v}.push({n})", lambda pv, n: pv.append(n))]


class KEmptiedArr(KArr):
    """an array emptied again before the capture"""
    name, ty = "emptiedarr", "array<int>"

    def mk(self, a, b):
        return "{ let e_ = [%d]; e_.pop(); e_ }" % a, []

    def mutations(self):
        return [("{v}.push({n})", lambda pv, n: pv.append(n))]


class KNestedEmpty(Kind):
    name, ty = "nestedempty", "array<array<int>>"
    annotate = True

    def mk(self, a, b):
        return "[[], [%d]]" % a, [[], [a]]

    def mutations(self):
        return [("{v}[0].push({n})", lambda pv, n: pv[0].append(n)),
                ("{v}[1].push({n})", lambda pv, n: pv[1].append(n))]


class KTupleEmpty(Kind):
    name, ty = "tupleempty", "(int, array<int>)"
    annotate = True

    def mk(self, a, b):
        return "(%d, [])" % a, (a, [])

    def mutations(self):
        return [("{{ let (t_a, t_b) = {v}; t_b.push({n}) }}", lambda pv, n: pv[1].append(n))]


KINDS = [KInt(), KBool(), KVoid(), KStr(), KArr(), KNested(), KStrArr(), KTuple(), KMsg(), KShape(), KOArr()]
# kinds that cannot carry a message identity: only for captured values (C08)
EMPTY_KINDS = [KEmptyArr(), KEmptiedArr(), KNestedEmpty(), KTupleEmpty()]
KIND_BY_NAME = {k.name: k for k in KINDS}


# ------------------------------------------------------------------------------------------
# networks

class Net:
    pass


def _gen_net(r, idx, deterministic, opts):
    """-> dict(src, expect (deterministic only), writes=[(ch, wid, seq, rendering)], meta) or None"""
    ntasks = r.range(1, 3)           # tasks besides main (task ids 1..ntasks; 0 = main)
    nch = r.range(1, 3)
    chans = []
    for c in range(nch):
        kind = r.choice(KINDS)
        if deterministic:
            w = r.range(0, ntasks)
            rd = r.choice([t for t in range(0, ntasks + 1) if t != w])
            writers, readers = [w], [rd]
        else:
            writers = r.sample(range(0, ntasks + 1), r.range(1, min(3, ntasks + 1)))
            rest = [t for t in range(0, ntasks + 1)]
            readers = r.sample(rest, r.range(1, min(2, len(rest))))
            if readers == writers and len(writers) == 1:
                # a single task that writes then reads its own channel is allowed (self loop)
                pass
        chans.append({"name": "ch%d" % c, "kind": kind, "writers": writers, "readers": readers})
    # per-channel message counts
    scripts = {t: [] for t in range(0, ntasks + 1)}
    writes = []
    total = 0
    for ci, ch in enumerate(chans):
        per_writer = {w: r.range(1, 4) for w in ch["writers"]}
        n = sum(per_writer.values())
        total += n
        # split the reads among the readers
        per_reader = {x: 0 for x in ch["readers"]}
        for _ in range(n):
            per_reader[r.choice(ch["readers"])] += 1
        for w, k in per_writer.items():
            for s in range(k):
                scripts[w].append(("send", ci, s))
        for x, k in per_reader.items():
            for _ in range(k):
                scripts[x].append(("recv", ci))
    # shuffle each script while keeping the per-(task, channel) send order, then sprinkle noise
    for t in scripts:
        ops = scripts[t]
        r.shuffle(ops)
        seqs = {}
        fixed = []
        for op in ops:
            if op[0] == "send":
                k = seqs.get(op[1], 0)
                seqs[op[1]] = k + 1
                fixed.append(("send", op[1], k))
            else:
                fixed.append(op)
        noisy = []
        for op in fixed:
            if r.chance(25):
                noisy.append(("spin", r.choice([1, 3, 10, 40])))
            if r.chance(15):
                noisy.append(("garbage", r.choice([5, 30, 120])))
            noisy.append(op)
            if op[0] == "send" and chans[op[1]]["kind"].mutations() and opts.get("mutate_after_send") and r.chance(50):
                noisy.append(("mutate_sent",))
        scripts[t] = noisy
    # reports: every received message is reported as "<reader>:<channel>:<rendering>"; a non-printing
    # reader forwards the report through `res` (string channel) to main, which prints everything.
    # In deterministic mode `res` would have several writers, so there only main (or one task
    # acting as printer with main waiting) receives.
    net = {"ntasks": ntasks, "chans": chans, "scripts": scripts, "total": total, "fin": bool(opts.get("fin"))}
    return net


def _emit_net(net, r, deterministic, opts):
    chans, scripts, ntasks = net["chans"], net["scripts"], net["ntasks"]
    lines = [DECLS]
    for ch in chans:
        lines.append("let %s: channel<%s> = channel()" % (ch["name"], ch["kind"].ty))
    lines.append("let res: channel<string> = channel()")
    lines.append("let fin: channel<int> = channel()")
    nid = [0]
    nmut = [0]

    def fresh(p):
        nid[0] += 1
        return "%s%d" % (p, nid[0])

    # model state
    model_q = {ci: [] for ci in range(len(chans))}
    writes = []
    reports_expected = {t: 0 for t in scripts}

    def emit_script(t, ind):
        out = []
        last_sent = None
        for op in scripts[t]:
            if op[0] == "send":
                ch = chans[op[1]]
                src, pv = ch["kind"].mk(t + 1, op[2])
                v = fresh("m")
                out.append("%slet %s = %s" % (ind, v, src))
                out.append("%s%s.write(%s)" % (ind, ch["name"], v))
                writes.append((op[1], t, op[2], ch["kind"].render(pv)))
                last_sent = (v, ch["kind"], pv)
            elif op[0] == "mutate_sent":
                if last_sent:
                    v, kind, pv = last_sent
                    tmpl, _f = r.choice(kind.mutations())
                    out.append(ind + tmpl.format(v=v, n=r.range(50, 99)))
                    nmut[0] += 1
            elif op[0] == "recv":
                ch = chans[op[1]]
                v = fresh("r")
                out.append("%slet %s = %s.read()" % (ind, v, ch["name"]))
                rep = '"%d:%d:" .. %s' % (t, op[1], ch["kind"].show(v))
                if t == 0:
                    out.append("%sprintln(%s)" % (ind, rep))
                else:
                    out.append("%sres.write(%s)" % (ind, rep))
                    reports_expected[t] += 1
            elif op[0] == "spin":
                z = fresh("z")
                out.append("%svar %s = 0" % (ind, z))
                out.append("%swhile %s < %d { %s += 1 }" % (ind, z, op[1], z))
            elif op[0] == "garbage":
                g = fresh("g")
                out.append("%sfor %s in %d { let junk = [%s, %s, %s]; let junk2 = \"j\" .. %s }" % (ind, g, op[1], g, g, g, g))
        return out

    for t in range(1, ntasks + 1):
        lines.append("task {")
        lines += emit_script(t, "  ")
        if opts.get("fin"):
            lines.append("  fin.write(%d)" % t)
        lines.append("}")
    lines += emit_script(0, "")
    nrep = sum(reports_expected.values())
    if nrep:
        lines.append("for k_ in %d { println(res.read()) }" % nrep)
    if opts.get("fin"):
        lines.append("for k_ in %d { let f_ = fin.read() }" % ntasks)
    lines.append('println("end")')
    return "\n".join(lines) + "\n", writes, nrep, nmut[0]


def _simulate(net):
    """model run: straight-line scripts, unbounded FIFO channels. -> (completes under every
    schedule, receptions per task as (channel, writer, seq) under one schedule).
    Enabledness depends only on how many values a channel holds, so the state of the model is the
    vector of script positions; all reachable vectors are explored (channels with several readers
    make the outcome of a race matter: a reader may take the value another one needed)."""
    chans, scripts = net["chans"], net["scripts"]
    tasks = sorted(scripts)
    # the report channel `res` and the completion channel `fin` are part of the model
    ops = {}
    nrep = 0
    for t in tasks:
        lst = []
        for op in scripts[t]:
            if op[0] == "send":
                lst.append(op)
            elif op[0] == "recv":
                lst.append(op)
                if t != 0:
                    lst.append(("send", "res", 0))
                    nrep += 1
        if t != 0 and net.get("fin"):
            lst.append(("send", "fin", 0))
        ops[t] = lst
    ops[0] = ops[0] + [("recv", "res")] * nrep + ([("recv", "fin")] * (len(tasks) - 1) if net.get("fin") else [])

    def qlen(pcs, ci):
        n = 0
        for t, pc in zip(tasks, pcs):
            for op in ops[t][:pc]:
                if op[1] == ci:
                    n += 1 if op[0] == "send" else -1
        return n

    start = tuple(0 for _ in tasks)
    seen = {start}
    work = [start]
    main_i = tasks.index(0)
    ok = True
    while work and ok:
        pcs = work.pop()
        if pcs[main_i] == len(ops[0]):
            continue  # main program finished: the run is over
        moved = False
        for i, t in enumerate(tasks):
            if pcs[i] >= len(ops[t]):
                continue
            op = ops[t][pcs[i]]
            if op[0] == "recv" and qlen(pcs, op[1]) <= 0:
                continue
            moved = True
            nxt = pcs[:i] + (pcs[i] + 1,) + pcs[i + 1:]
            if nxt not in seen:
                seen.add(nxt)
                work.append(nxt)
                if len(seen) > 60000:
                    return False, None
        if not moved:
            ok = False
    if not ok:
        return False, None
    # one concrete schedule for the expected receptions (used for single-reader networks only)
    q = {ci: [] for ci in range(len(chans))}
    q["res"], q["fin"] = [], []
    pc = {t: 0 for t in tasks}
    got = {t: [] for t in tasks}
    progress = True
    while progress:
        progress = False
        for t in tasks:
            while pc[t] < len(ops[t]):
                op = ops[t][pc[t]]
                if op[0] == "send":
                    q[op[1]].append((t, op[2]))
                else:
                    if not q[op[1]]:
                        break
                    item = q[op[1]].pop(0)
                    if op[1] not in ("res", "fin"):
                        got[t].append((op[1],) + item)
                pc[t] += 1
                progress = True
    return True, got


def gen_networks(seed, n, deterministic=False, mutate_after_send=False, fin=None):
    """-> list of dict(src, expect, writes, nreports, nets meta)"""
    out = []
    i = 0
    tries = 0
    while len(out) < n and tries < n * 20:
        tries += 1
        r = vlib.Rng(seed).fork("net", tries)
        opts = {"mutate_after_send": mutate_after_send, "fin": r.chance(50) if fin is None else fin}
        net = _gen_net(r, tries, deterministic, opts)
        ok, got = _simulate(net)
        if not ok:
            continue
        src, writes, nrep, nmut = _emit_net(net, r, deterministic, opts)
        expect = None
        if deterministic:
            # main prints its own receptions in script order, then the forwarded reports in the
            # order they arrive on `res` - which is schedule dependent when several tasks forward.
            # Keep only networks where at most one non-main task forwards reports.
            forwarders = [t for t in net["scripts"] if t != 0 and any(op[0] == "recv" for op in net["scripts"][t])]
            if len(forwarders) > 1:
                continue
            render = {}
            for (ci, w, s, text) in writes:
                render[(ci, w, s)] = text
            lines = []
            for (ci, w, s) in got[0]:
                lines.append("0:%d:%s" % (ci, render[(ci, w, s)]))
            for t in forwarders:
                for (ci, w, s) in got[t]:
                    lines.append("%d:%d:%s" % (t, ci, render[(ci, w, s)]))
            lines.append("end")
            expect = "\n".join(lines) + "\n"
        out.append({"src": src, "expect": expect, "writes": writes, "nreports": nrep,
                    "ntasks": net["ntasks"], "kinds": sorted({c["kind"].name for c in net["chans"]}),
                    "multi_writer": any(len(c["writers"]) > 1 for c in net["chans"]),
                    "multi_reader": any(len(c["readers"]) > 1 for c in net["chans"]),
                    "mutates": nmut > 0})
    return out


def check_history(net, output):
    """offline checker over the printed history of one run. -> list of problem descriptions"""
    probs = []
    lines = output.split("\n")
    if lines and lines[-1] == "":
        lines.pop()
    if not lines or lines[-1] != "end":
        probs.append("history does not end with the main program's final line")
    else:
        lines.pop()
    written = {}
    for (ci, w, s, text) in net["writes"]:
        written.setdefault((ci, text), []).append((w, s))
    seen = {}
    last_seq = {}
    for ln in lines:
        parts = ln.split(":", 2)
        if len(parts) != 3 or not parts[0].isdigit() or not parts[1].isdigit():
            probs.append("unparseable report line %r" % ln[:80])
            continue
        rd, ci, text = int(parts[0]), int(parts[1]), parts[2]
        if (ci, text) not in written:
            probs.append("reader %d received on channel %d a value that was never written: %r" % (rd, ci, text[:80]))
            continue
        seen[(ci, text)] = seen.get((ci, text), 0) + 1
        if seen[(ci, text)] > len(written[(ci, text)]):
            probs.append("value %r on channel %d was received more often than it was written" % (text[:60], ci))
            continue
        if len(written[(ci, text)]) == 1:
            # the text identifies the write: per-(reader, writer) order must follow the sequence numbers
            w, s = written[(ci, text)][0]
            key = (rd, ci, w)
            if key in last_seq and last_seq[key] >= s:
                probs.append("reader %d received writer %d's messages on channel %d out of order (%d after %d)" % (rd, w, ci, s, last_seq[key]))
            last_seq[key] = s
    for (ci, text), ws in written.items():
        if seen.get((ci, text), 0) < len(ws):
            probs.append("value %r written on channel %d was never received" % (text[:60], ci))
    return probs


# ------------------------------------------------------------------------------------------
# task captures (C08)

class KClosure(Kind):
    """a lambda that captured an array: calling it pushes to its array and returns the new length"""
    name, ty = "closure", "int -> int"

    def mk(self, a, b):
        return None  # built by the generator (needs a helper binding)


def gen_capture(r, nest=True):
    """one program: several values of different kinds are captured by a task (optionally a task
    inside the task); both sides mutate their values in phases ordered by handshakes and report
    renderings. Under deep-copy-at-spawn semantics every rendering is determined. -> dict(src,
    expect, kinds, nmut)"""
    kinds = r.sample([k for k in KINDS if k.name != "void"] + EMPTY_KINDS, r.range(2, 4))
    lines = [DECLS]
    vals = []      # [name, kind, model value, let/var] on the main side
    for i, k in enumerate(kinds):
        src, pv = k.mk(r.range(1, 9), r.range(0, 9))
        name = "v%d" % i
        mut = "var" if (not k.heap or r.chance(30)) else "let"
        lines.append("%s %s%s = %s" % (mut, name, (": " + k.ty) if k.name == "option" or getattr(k, "annotate", False) else "", src))
        vals.append([name, k, pv, mut])
    use_closure = r.chance(50)
    if use_closure:
        lines.append("let carr = [1, 2]")
        lines.append("let clo = (n: int) -> { carr.push(n); carr.len() }")
    lines.append("let outa: channel<string> = channel()")
    lines.append("let outb: channel<string> = channel()")
    lines.append("let go: channel<int> = channel()")
    nmut = [0]
    kinds_used = [k.name for k in kinds] + (["closure"] if use_closure else [])

    def mutate_some(side_vals, ind, out, side):
        for v in side_vals:
            name, k, pv, mut = v
            if k.mutations() and r.chance(70):
                tmpl, f = r.choice(k.mutations())
                if ".pop()" in tmpl and len(pv) <= 1:
                    continue
                n = r.range(100, 999)
                out.append(ind + tmpl.format(v=name, n=n))
                f(pv, n)
                nmut[0] += 1
            elif not k.mutations() and side == "main" and mut == "var" and r.chance(60):
                # reassign a scalar/string variable on the spawning side
                src, npv = k.mk(r.range(1, 9), r.range(10, 19))
                out.append("%s%s = %s" % (ind, name, src))
                v[2] = npv
                nmut[0] += 1

    def report(side_vals, ind, out, chan, tag, exp):
        for name, k, pv, mut in side_vals:
            if chan is None:
                out.append('%sprintln("%s %s=" .. %s)' % (ind, tag, name, k.show(name)))
            else:
                out.append('%s%s.write("%s %s=" .. %s)' % (ind, chan, tag, name, k.show(name)))
            exp.append("%s %s=%s" % (tag, name, k.render(pv)))

    def call_clo(carr, n, ind, out, chan, tag, exp):
        carr.append(n)
        if chan is None:
            out.append('%sprintln("%s clo=" .. clo(%d))' % (ind, tag, n))
        else:
            out.append('%s%s.write("%s clo=" .. clo(%d))' % (ind, chan, tag, n))
        exp.append("%s clo=%d" % (tag, len(carr)))

    exp_m1, exp_a, exp_b, exp_m2 = [], [], [], []
    # pre-spawn mutations (visible to the task: the copy is taken at spawn)
    mutate_some(vals, "", lines, "main")
    carr_main = [1, 2]
    if use_closure and r.chance(50):
        lines.append("let c0_ = clo(7)")
        carr_main.append(7)
    # spawn
    tvals = [[n, k, copy.deepcopy(pv), m] for n, k, pv, m in vals]
    carr_task = list(carr_main)
    lines.append("task {")
    body = []
    mutate_some(tvals, "  ", body, "task")
    report(tvals, "  ", body, "outa", "T1", exp_a)
    if use_closure:
        call_clo(carr_task, 8, "  ", body, "outa", "T1", exp_a)
    inner = nest and r.chance(50)
    if inner:
        ivals = [[n, k, copy.deepcopy(pv), m] for n, k, pv, m in tvals]
        carr_inner = list(carr_task)
        body.append("  task {")
        ib = []
        mutate_some(ivals, "    ", ib, "task")
        report(ivals, "    ", ib, "outb", "I1", exp_b)
        if use_closure:
            call_clo(carr_inner, 9, "    ", ib, "outb", "I1", exp_b)
        ib.append('    outb.write("end")')
        body += ib
        body.append("  }")
        # the outer task keeps mutating after spawning the inner one
        mutate_some(tvals, "  ", body, "task")
    body.append("  let g_ = go.read()")
    mutate_some(tvals, "  ", body, "task")
    report(tvals, "  ", body, "outa", "T2", exp_a)
    if use_closure:
        call_clo(carr_task, 8, "  ", body, "outa", "T2", exp_a)
    body.append('  outa.write("end")')
    lines += body
    lines.append("}")
    # main continues: mutate, report, release the task
    if r.chance(50):
        lines.append("var sp_ = 0")
        lines.append("while sp_ < %d { sp_ += 1 }" % r.choice([3, 40, 200]))
    mutate_some(vals, "", lines, "main")
    report(vals, "", lines, None, "M1", exp_m1)
    if use_closure:
        call_clo(carr_main, 5, "", lines, None, "M1", exp_m1)
        # main's own `carr` binding shares the array with the closure created on the main side
        lines.append('println("M1 carr=" .. carr)')
        exp_m1.append("M1 carr=%s" % r_arr(carr_main))
    lines.append("go.write(1)")
    for ch, on in (("outa", True), ("outb", inner)):
        if on:
            lines.append("%smsg_ = %s.read()" % ("var " if ch == "outa" else "", ch))
            lines.append('while msg_ != "end" {')
            lines.append("  println(msg_)")
            lines.append("  msg_ = %s.read()" % ch)
            lines.append("}")
    report(vals, "", lines, None, "M2", exp_m2)
    if use_closure:
        call_clo(carr_main, 5, "", lines, None, "M2", exp_m2)
    src = "\n".join(lines) + "\n"
    expect = "\n".join(exp_m1 + exp_a + (exp_b if inner else []) + exp_m2) + "\n"
    return {"src": src, "expect": expect, "kinds": kinds_used, "nmut": nmut[0], "inner": inner, "closure": use_closure}


# ------------------------------------------------------------------------------------------
# race networks (C10): pure producers writing to ONE shared channel

def gen_race_network(r):
    """2-3 producer tasks that never read anything write tagged messages to one shared channel with
    different amounts of work in between; main prints the messages in arrival order. The producers
    advance in lock step (one instruction each per round, whatever main is doing), so the arrival
    order - and with it the printed text - must not depend on how the embedder slices execution."""
    np_ = r.range(2, 3)
    kind = r.choice([k for k in KINDS if k.name in ("int", "string", "array", "struct", "tuple")])
    lines = [DECLS, "let shared: channel<%s> = channel()" % kind.ty]
    total = 0
    for p in range(np_):
        m = r.range(2, 5)
        total += m
        lines.append("task {")
        for j in range(m):
            w = r.choice([0, 1, 2, 3, 5, 8, 13, 21])
            if w:
                lines.append("  var sp%d_%d = 0" % (p, j))
                lines.append("  while sp%d_%d < %d { sp%d_%d += 1 }" % (p, j, w, p, j))
            src, _pv = kind.mk(p + 1, j)
            if r.chance(40):
                lines.append('  let pad%d_%d = "pad" .. %d' % (p, j, j))
            lines.append("  shared.write(%s)" % src)
        lines.append("}")
    if r.chance(50):
        lines.append('println("main starts")')
    for k in range(total):
        lines.append("println(%s)" % kind.show("shared.read()"))
        if r.chance(30):
            lines.append("var ms%d = 0" % k)
            lines.append("while ms%d < %d { ms%d += 1 }" % (k, r.choice([1, 4, 9]), k))
    lines.append('println("end")')
    return {"src": "\n".join(lines) + "\n", "producers": np_, "messages": total}
