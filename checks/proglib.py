"""Shared plumbing for the generated-program checks (C01, C02, C05, C10, C11, C19, C23, C29...)."""
import multiprocessing
import re

import vlib
from checks import progen

# zones of the language where a genuine, recorded defect lives; the random generator stays out of
# them (each zone has deterministic corpus cases in checks/corpus.py that report the defect under
# a stable name). Keys are progen cfg flags.
SAFE_CFG = {"jumps_in_operands": False}


def _gen_one(args):
    seed, idx, cfg, max_steps = args
    r = vlib.Rng(seed).fork("prog", idx)
    try:
        prog = progen.gen_program(r, cfg)
        src, _ = progen.emit(prog)
    except RecursionError:
        return None
    try:
        ref = progen.interpret(prog, max_steps)
    except progen.TooBig:
        return None
    except (progen.Unsupported, RecursionError):
        return (prog, src, None)
    return (prog, src, ref)


def _gen_chunk(chunk):
    return [_gen_one(a) for a in chunk]


def _map_robust(args, chunk=50):
    """pool.map that survives a dying worker (a generator recursion deep enough to overflow the C
    stack kills the process: multiprocessing.Pool would wait for its result for ever). A chunk whose
    worker died is generated again item by item, each in a process of its own; an item that kills
    its process is dropped (None)."""
    import concurrent.futures as cf
    chunks = [args[i:i + chunk] for i in range(0, len(args), chunk)]
    out = [None] * len(chunks)
    pending = list(range(len(chunks)))
    for _attempt in range(3):
        if not pending:
            break
        broken = []
        with cf.ProcessPoolExecutor(min(16, vlib.NCPU)) as ex:
            futs = {ci: ex.submit(_gen_chunk, chunks[ci]) for ci in pending}
            for ci, f in futs.items():
                try:
                    out[ci] = f.result(timeout=1800)
                except Exception:
                    broken.append(ci)
        if not broken:
            pending = []
            break
        # the pool is broken as a whole once one worker dies: chunks that merely shared the pool are
        # retried; after the first retry every remaining chunk goes item by item
        if _attempt == 0:
            pending = broken
            continue
        for ci in broken:
            items = []
            for a in chunks[ci]:
                try:
                    with cf.ProcessPoolExecutor(1) as ex1:
                        items.append(ex1.submit(_gen_one, a).result(timeout=600))
                except Exception:
                    items.append(None)
            out[ci] = items
        pending = []
    res = []
    for ci, o in enumerate(out):
        res.extend(o if o is not None else [None] * len(chunks[ci]))
    return res


def gen_batch(seed, n, cfg=None, max_steps=60000, start=0, keep_unsupported=False):
    """-> list of (idx, prog, src, ref) for programs inside the reference fragment"""
    c = dict(SAFE_CFG)
    if cfg:
        c.update(cfg)
    args = [(seed, start + i, c, max_steps) for i in range(n)]
    res = _map_robust(args)
    out = []
    unsupported = 0
    for i, r in enumerate(res):
        if r is None:
            continue
        prog, src, ref = r
        if ref is None:
            unsupported += 1
            if not keep_unsupported:
                continue
        out.append((start + i, prog, src, ref))
    return out, unsupported


def expected_desc(ref):
    if ref["err"]:
        return "runtime error %s%s after output %r" % (ref["err"][0], (" `%s`" % ref["err"][1]) if ref["err"][0] == "panic" else "", ref["output"][-120:])
    return "completion with output %r final=%r" % (ref["output"][-160:], progen.render_top(ref["final"]))


def compare(ref, final_ty, run):
    """None when the observed run agrees with the reference, else (class, description)"""
    o = vlib.run_outcome(run)
    if o[0] == "panic":
        return ("fault", "internal fault %s; expected %s" % (vlib.panic_sig(run.get("panic")), expected_desc(ref)))
    if o[0] not in ("done", "error"):
        return ("status", "run ended with status %s; expected %s" % (o[0], expected_desc(ref)))
    if ref["err"]:
        k, m = ref["err"]
        if o[0] != "error":
            return ("noerror", "expected %s, but the run completed with output %r" % (expected_desc(ref), (o[1] or "")[-120:]))
        if k == "any":
            pass
        elif o[3] != k or (k == "panic" and o[4] != m):
            return ("errkind", "expected %s, observed error %s %r" % (expected_desc(ref), o[3], o[4]))
        if o[1] != ref["output"]:
            return ("output", "output before the error differs: expected %r observed %r" % (ref["output"][-160:], (o[1] or "")[-160:]))
        return None
    if o[0] == "error":
        return ("error", "expected %s, observed runtime error %s %r after output %r" % (expected_desc(ref), o[3], o[4], (o[1] or "")[-100:]))
    if o[1] != ref["output"]:
        return ("output", "expected output %r, observed %r" % (ref["output"][-200:], (o[1] or "")[-200:]))
    if final_ty:
        want = progen.render_top(ref["final"])
        if want != o[2]:
            return ("final", "expected final value %s, observed %s" % (want, o[2]))
    return None


def normalize(src):
    """alpha-rename generated identifiers so equal shapes hash equally"""
    names = {}

    def sub(m):
        w = m.group(0)
        if w not in names:
            names[w] = "%s_%d" % (re.sub(r"\d+", "", w), len(names))
        return names[w]
    return re.sub(r"\b(?:x|v|g|d|m|w|i|a|p|t|al|e|fun|St|En|Va|f)\d+\w*\b", sub, src)


def feature_hist(items):
    h = {}
    for (_i, prog, _s, _r) in items:
        for f in prog["features"]:
            h[f] = h.get(f, 0) + 1
    return dict(sorted(h.items()))


def host_specs(prog):
    """executor `hosts` table for the host functions a generated program declares"""
    return [{"name": h["name"], "args": list(h["params"]), "ret": h["ret"], "replies": list(h["replies"]), "log": True}
            for h in prog.get("hosts", [])]
