"""C24 Built-in equality, ordering and hashing are lawful.

Oracle: law checker on relation tables printed by the real VM. One case = an ordered triple
(x, y, z) of values of one built-in comparable type; the program prints all six operators on all
nine ordered pairs plus the three hashes, and every law of the statement is decided inside the
triple: == reflexive/symmetric/transitive, != its negation, exactly one of < == >,
x<=y <=> not(y<x), x>=y <=> y<=x, transitivity of <=, equal values hash equally."""
from checks.abra import strlit, intlit
from checks.common import Case, run_cases
from checks.c16 import lit as flit

LEVEL = "exploration"
OPS = ("<", "<=", ">", ">=", "==", "!=")
MIN, MAX = -(1 << 63), (1 << 63) - 1


def types(ctx):
    """-> list of (type name, annotation, [value exprs], has_ord, has_hash)"""
    B = ["true", "false"]
    T = []
    T.append(("bool", "bool", B, True, True))
    T.append(("void", "void", ["nil"], True, True))
    ints = [intlit(x) for x in (0, 1, -1, 2, MIN, MIN + 1, MAX, MAX - 1, 1 << 32, -(1 << 32), 255)]
    T.append(("int", "int", ints, True, True))
    fl = ["0.0", "(-0.0)", "1.0", "(-1.0)", "0.1", flit(5e-324), flit(1.7976931348623157e308), "(0.0 - verif_big() * 2.0)",
          "(verif_big() * 2.0)", "(verif_big() * 2.0 - verif_big() * 2.0)"]
    T.append(("float", "float", fl, True, False))
    strs = [strlit(s) for s in ("", "a", "b", "ab", "aa", "a\x00", "é", "€", "abc", "abd", "B")]
    T.append(("string", "string", strs, True, True))
    T.append(("(bool,bool)", "(bool, bool)", ["(%s, %s)" % (a, b) for a in B for b in B], True, True))
    T.append(("(bool,void)", "(bool, void)", ["(%s, nil)" % a for a in B], True, True))
    T.append(("(void,bool)", "(void, bool)", ["(nil, %s)" % a for a in B], True, True))
    T.append(("(bool,bool,bool)", "(bool, bool, bool)", ["(%s, %s, %s)" % (a, b, c) for a in B for b in B for c in B], True, True))
    T.append(("(bool,bool,bool,bool)", "(bool, bool, bool, bool)",
              ["(%s, %s, %s, %s)" % (a, b, c, d) for a in B for b in B for c in B for d in B], True, True))
    T.append(("(int,string)", "(int, string)", ["(%s, %s)" % (a, b) for a in ("0", "1", intlit(MIN)) for b in ('""', '"a"', '"b"')], True, True))
    T.append(("(string,int,bool)", "(string, int, bool)",
              ["(%s, %s, %s)" % (a, b, c) for a in ('"a"', '"b"') for b in ("0", intlit(-1)) for c in B], True, True))
    T.append(("((bool,bool),bool)", "((bool, bool), bool)", ["((%s, %s), %s)" % (a, b, c) for a in B for b in B for c in B], True, True))
    T.append(("(float,bool)", "(float, bool)", ["(%s, %s)" % (a, b) for a in ("0.0", "(-0.0)", "1.5") for b in B], True, False))
    arr = ["[]"] + ["[%s]" % a for a in B] + ["[%s, %s]" % (a, b) for a in B for b in B]
    T.append(("array<bool>", "array<bool>", arr, False, True))
    T.append(("array<int>", "array<int>", ["[]", "[0]", "[1]", "[0, 0]", "[0, 1]", "[1, 0]", "[%s]" % intlit(MIN)], False, True))
    T.append(("array<string>", "array<string>", ["[]", '[""]', '["a"]', '["a", "b"]', '["ab"]', '["b", "a"]'], False, True))
    T.append(("array<(bool,bool)>", "array<(bool, bool)>", ["[]", "[(true, false)]", "[(false, true)]", "[(true, false), (true, false)]"], False, True))
    T.append(("array<array<bool>>", "array<array<bool>>", ["[]", "[[]]", "[[true]]", "[[], []]", "[[true], []]"], False, True))
    T.append(("(array<bool>,bool)", "(array<bool>, bool)", ["([], true)", "([], false)", "([true], true)", "([false], true)"], False, True))
    return T


DECLS = "fn verif_big() -> float = %s\n" % flit(1.7976931348623157e308)


def body(ann, xs, ops, has_hash, lit_forms=False):
    names = "xyz"
    lines = ["let %s: %s = %s" % (n, ann, e) for n, e in zip(names, xs)]
    forms = ["vv"] + (["vl", "lv"] if lit_forms else [])
    for f in forms:
        for i, a in enumerate(names):
            for j, b_ in enumerate(names):
                A = a if f[0] == "v" else xs[i]
                B = b_ if f[1] == "v" else xs[j]
                for op in ops:
                    lines.append('print(if %s %s %s { "1" } else { "0" })' % (A, op, B))
                lines.append('print(" ")')
        lines.append('print("#")')
    # once more operator by operator: consecutive comparisons then have DIFFERENT operands (state
    # left behind by one comparison must not leak into the next)
    lines.append('print("@")')
    for op in ops:
        for a in names:
            for b_ in names:
                lines.append('print(if %s %s %s { "1" } else { "0" })' % (a, op, b_))
    lines.append('print("@")')
    if has_hash:
        for a in names:
            lines.append('print("|" .. Hash.hash(%s))' % a)
    lines.append('println("")')
    return "\n".join(lines)


def laws_all(text, xs, has_ord, has_hash):
    """the relation table is printed once per operand form (variables, variable-literal,
    literal-variable); every table must satisfy the laws and all tables must agree"""
    opmajor = None
    if text.count("@") == 2:
        pre, opmajor, post = text.split("@")
        text = pre + post
    head, _, hashes = text.strip("\n").partition("|")
    tables = [t for t in head.split("#") if t.strip() != ""]
    if not tables:
        return "no relation table in %r" % text[:80]
    if opmajor is not None:
        cells = tables[0].split()
        nops = len(cells[0]) if cells else 0
        if len(opmajor) != 9 * nops:
            return "malformed operator-major table %r" % opmajor[:80]
        again = ["".join(opmajor[o * 9 + p] for o in range(nops)) for p in range(9)]
        if again != cells:
            return "the same comparisons evaluated operator by operator give %s, pair by pair %s" % (again, cells)
    for n, t in enumerate(tables):
        w = laws(t + ("|" + hashes if hashes else ""), xs, has_ord, has_hash)
        if w:
            return ("[operand form %d] " % n) + w
        if t.split() != tables[0].split():
            return "operand form %d disagrees with the variable form: %s vs %s" % (n, t.split(), tables[0].split())
    return None


def laws(text, xs, has_ord, has_hash):
    """-> None or description of the first violated law"""
    parts = text.strip("\n").split("|")
    cells = parts[0].split(" ")
    cells = [c for c in cells if c != ""]
    nops = 6 if has_ord else 2
    if len(cells) != 9 or any(len(c) != nops for c in cells):
        return "malformed relation table %r" % text[:80]
    rel = {}
    k = 0
    for i in range(3):
        for j in range(3):
            bits = [ch == "1" for ch in cells[k]]
            k += 1
            if has_ord:
                rel[(i, j)] = dict(lt=bits[0], le=bits[1], gt=bits[2], ge=bits[3], eq=bits[4], ne=bits[5])
            else:
                rel[(i, j)] = dict(eq=bits[0], ne=bits[1])
    same = lambda i, j: xs[i] == xs[j]
    for i in range(3):
        if not rel[(i, i)]["eq"]:
            return "x == x is false for x=%s" % xs[i]
    for i in range(3):
        for j in range(3):
            r, q = rel[(i, j)], rel[(j, i)]
            if same(i, j) and not r["eq"]:
                return "identical values compare unequal: %s" % xs[i]
            if r["eq"] != q["eq"]:
                return "== not symmetric on %s, %s" % (xs[i], xs[j])
            if r["ne"] == r["eq"]:
                return "!= is not the negation of == on %s, %s" % (xs[i], xs[j])
            if has_ord:
                if (r["lt"] + r["eq"] + r["gt"]) != 1:
                    return "not exactly one of <,==,> on %s, %s (lt=%s eq=%s gt=%s)" % (xs[i], xs[j], r["lt"], r["eq"], r["gt"])
                if r["le"] != (not q["lt"]):
                    return "x<=y differs from not(y<x) on x=%s y=%s (le=%s, y<x=%s)" % (xs[i], xs[j], r["le"], q["lt"])
                if r["ge"] != q["le"]:
                    return "x>=y differs from y<=x on x=%s y=%s (ge=%s, y<=x=%s)" % (xs[i], xs[j], r["ge"], q["le"])
                if r["gt"] != q["lt"]:
                    return "x>y differs from y<x on x=%s y=%s" % (xs[i], xs[j])
    for i in range(3):
        for j in range(3):
            for k_ in range(3):
                if rel[(i, j)]["eq"] and rel[(j, k_)]["eq"] and not rel[(i, k_)]["eq"]:
                    return "== not transitive on %s, %s, %s" % (xs[i], xs[j], xs[k_])
                if has_ord and rel[(i, j)]["le"] and rel[(j, k_)]["le"] and not rel[(i, k_)]["le"]:
                    return "<= not transitive on %s, %s, %s" % (xs[i], xs[j], xs[k_])
                if has_ord and rel[(i, j)]["lt"] and rel[(j, k_)]["lt"] and not rel[(i, k_)]["lt"]:
                    return "< not transitive on %s, %s, %s" % (xs[i], xs[j], xs[k_])
    if has_hash:
        hs = parts[1:4]
        if len(hs) != 3:
            return "missing hashes in %r" % text[:80]
        for i in range(3):
            for j in range(3):
                if rel[(i, j)]["eq"] and hs[i] != hs[j]:
                    return "equal values hash differently: %s -> %s, %s -> %s" % (xs[i], hs[i], xs[j], hs[j])
    return None


def run(ctx):
    cases = []
    r = ctx.rng.fork("triples")
    exhaustive_types = []
    for name, ann, vals, has_ord, has_hash in types(ctx):
        n = len(vals)
        triples = [(i, j, k) for i in range(n) for j in range(n) for k in range(n)]
        cap = 220 if ctx.quick else 4200
        if len(triples) > cap:
            # keep all triples with a repeated element (pair laws), sample the rest
            keep = [t for t in triples if len(set(t)) < 3]
            rest = [t for t in triples if len(set(t)) == 3]
            r.shuffle(rest)
            if len(keep) > cap:
                r.shuffle(keep)
                keep = keep[:cap]
            triples = keep + rest[:max(0, cap - len(keep))]
        else:
            exhaustive_types.append(name)
        ops = OPS if has_ord else ("==", "!=")
        for (i, j, k) in triples:
            xs = (vals[i], vals[j], vals[k])
            def exp(obs, xs=xs, has_ord=has_ord, has_hash=has_hash):
                if obs[0] != "out":
                    return "no table: %r" % (obs[:3],)
                return laws_all(obs[1], xs, has_ord, has_hash)
            cases.append(Case("type=%s x=%s y=%s z=%s" % (name, xs[0], xs[1], xs[2]), body(ann, xs, ops, has_hash, name in ("int", "float", "string", "bool")), exp, DECLS))
    nruns, observed, failures = run_cases(ctx, "c24", cases, lambda c: "C24 " + c.key, per_prog=60)
    ctx.coverage(
        evaluations=nruns,
        distinct_nontrivial=len(observed),
        rule="case = ordered triple of values of one built-in comparable type; all 6 operators on the 9 ordered pairs "
             "(54 comparisons) + hashes are printed by the VM and all laws are decided inside the triple; "
             "distinct = distinct (type, x, y, z) observed",
        samples=[{"case": cases[0].key, "program": cases[0].body}, {"case": cases[-1].key}],
        types_enumerated_exhaustively=exhaustive_types,
        failures=failures[:20],
    )
    ctx.need(len(observed) >= 0.98 * len({c.key for c in cases}), "only %d of %d cases observed" % (len(observed), len(cases)))


def replay(ctx, rep):
    res = ctx.ex.run_alone(rep["job"])
    print(__import__("json").dumps(res)[:3000])
