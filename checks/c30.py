"""C30 Literals denote exactly the values they spell.

Integers: python int() of the digits (with `_` separators, leading zeros, negation); floats:
python's correctly rounded float() of the cleaned spelling, compared bit-exactly; strings: the
generator starts from the INTENDED text and derives a literal for it (quote style, escape choice
per character, triple-quoted single-line and block forms), so the expectation is the text itself.
Out-of-range numeric literals must be rejected with a diagnostic (never accepted, never a panic)."""
from checks.common import Case, run_cases
from checks.c16 import expect_float

LEVEL = "exploration"
MIN, MAX = -(1 << 63), (1 << 63) - 1


def with_underscores(r, digits):
    out = []
    for i, ch in enumerate(digits):
        out.append(ch)
        if i < len(digits) - 1 and r.chance(20):
            out.append("_" * r.range(1, 2))
    if r.chance(5):
        out.append("_")
    return "".join(out)


def int_cases(ctx, r):
    cases = []
    vals = [0, 1, 7, 10, 255, MAX, MAX - 1, 1 << 62, 1 << 32, (1 << 32) - 1, 10 ** 18, 999999999999999999]
    for _ in range(1500 if ctx.quick else 12000):
        k = r.below(4)
        if k == 0:
            vals.append(r.next() >> 1)
        elif k == 1:
            vals.append(r.below(1000))
        elif k == 2:
            vals.append(1 << r.range(1, 62))
        else:
            vals.append(r.below(10 ** r.range(1, 18)))
    for v in vals:
        d = str(v)
        if r.chance(20):
            d = "0" * r.range(1, 3) + d
        sp = with_underscores(r, d) if r.chance(50) else d
        cases.append(Case("int %s" % sp, "println(%s)" % sp, ("out", "%d\n" % v)))
        cases.append(Case("int -%s" % sp, "println(-%s)" % sp, ("out", "%d\n" % (-v))))
        cases.append(Case("int let -%s" % sp, "let x = -%s\nprintln(x + 0)" % sp, ("out", "%d\n" % (-v))))
    cases.append(Case("int -9223372036854775808", "println(-9223372036854775808)", ("out", "%d\n" % MIN)))
    cases.append(Case("int -9_223_372_036_854_775_808", "println(-9_223_372_036_854_775_808)", ("out", "%d\n" % MIN)))
    return cases


def reject_cases(ctx, r):
    """programs that must be rejected with a diagnostic"""
    out = []
    big = [1 << 63, (1 << 63) + 1, 1 << 64, 10 ** 19, 10 ** 30, (1 << 64) + 5]
    for v in big:
        out.append(("int-out-of-range %d" % v, "println(%d)\n" % v))
        out.append(("int-out-of-range -%d" % (v + 1), "println(-%d)\n" % (v + 1)))
        out.append(("int-out-of-range-underscored %d" % v, "println(%s)\n" % with_underscores(r, str(v))))
    for n in (309, 310, 400, 1000):
        out.append(("float-out-of-range 1e%d" % n, "println(1" + "0" * n + ".0)\n"))
        out.append(("float-out-of-range -1e%d" % n, "println(-1" + "0" * n + ".5)\n"))
    out.append(("float-out-of-range 1.8e308", "println(18" + "0" * 307 + ".0)\n"))
    return out


def float_cases(ctx, r):
    cases = []
    for _ in range(2500 if ctx.quick else 20000):
        ip = "".join(str(r.below(10)) for _ in range(r.range(1, 22)))
        fp = "".join(str(r.below(10)) for _ in range(r.range(0, 24)))
        if r.chance(10):
            ip = str(r.below(3))
        if r.chance(5):
            ip = "1" + "0" * r.range(290, 307)
        clean = (ip.lstrip("0") or "0") + "." + (fp or "0")
        sp = (with_underscores(r, ip) if r.chance(30) else ip) + "." + (with_underscores(r, fp) if fp and r.chance(30) else fp)
        v = float(clean)
        if v == float("inf"):
            continue
        cases.append(Case("float %s" % sp, "println(%s)" % sp, expect_float(v)))
        if r.chance(30):
            cases.append(Case("float -%s" % sp, "println(-%s)" % sp, expect_float(-v)))
    for sp in ("0.5", "0.1", "17976931348623157" + "0" * 292 + ".0", "0." + "0" * 322 + "5", "0." + "0" * 323 + "2", "4.9" + "0" * 0,
               "9007199254740993.0", "9007199254740992.5", "0.30000000000000004", "123456789012345678901234567890.0"):
        cases.append(Case("float %s" % sp[:40], "println(%s)" % sp, expect_float(float(sp))))
    return cases


ALPHA = ['a', 'b', ' ', '"', "'", '\\', '\n', '\t', '\r', 'é', '€', '😀', '\x00', '\x01', '\x7f', '\xe9', '{', '}', '/', '*', '#', 'n', 'x', '0']


def string_literal(r, text, quote):
    """one spelling of `text` in the given quote style, choosing per character between raw and
    escaped forms where both are legal"""
    out = []
    for ch in text:
        o = ord(ch)
        if ch == "\\":
            out.append("\\\\")
        elif ch == quote:
            out.append("\\" + quote)
        elif ch in ('"', "'"):
            out.append(ch if r.chance(60) else "\\" + ch)
        elif ch == "\n":
            out.append("\\n")
        elif ch == "\r":
            out.append("\\r")
        elif ch == "\t":
            out.append("\\t" if r.chance(70) else "\t")
        elif o < 0x20 or o == 0x7F:
            out.append("\\x%02x" % o)
        elif 0x80 <= o <= 0xFF:
            out.append(ch if r.chance(50) else "\\x%02x" % o)
        elif o < 0x7F and r.chance(4):
            out.append("\\x%02x" % o)
        else:
            out.append(ch)
    return quote + "".join(out) + quote


def string_cases(ctx, r):
    cases = []
    texts = ["", "a", "it's", 'say "hi"', "back\\slash", "tab\there", "line\nbreak", "é€😀", "\x00", "a\x00b", "//not a comment", "/* nor this */",
             "\\n", "\\", "'\"'", "ends with backslash\\", "\xe9\xff", "x41", "\\x41"]
    for _ in range(2000 if ctx.quick else 15000):
        texts.append("".join(r.choice(ALPHA) for _ in range(r.range(0, 12))))
    n = 0
    for t in texts:
        for q in ('"', "'"):
            n += 1
            lit = string_literal(r, t, q)
            cases.append(Case("string %s #%d" % (q, n), "let s = %s\nprint(s)\nprint(\"|\")\nprintln(string_count_bytes(s))" % lit,
                              ("out", t + "|%d\n" % len(t.encode("utf-8"))), meta=(t, lit)))
    # triple-quoted single-line form: text without newline and without a `"""` run, not ending in a quote
    for t in texts:
        if "\n" in t or "\r" in t or t.endswith('"') or t.startswith('"') or '"""' in t:
            continue
        if t != t.strip(" \t") or t == "":
            continue  # edge whitespace / emptiness of the inline form is not specified anywhere
        body = []
        for ch in t:
            o = ord(ch)
            if ch == "\\":
                body.append("\\\\")
            elif ch == "\t":
                body.append("\\t")
            elif o < 0x20 or o == 0x7F:
                body.append("\\x%02x" % o)
            else:
                body.append(ch)
        lit = '"""' + "".join(body) + '"""'
        n += 1
        cases.append(Case("string triple-inline #%d" % n, "let s = %s\nprint(s)\nprintln(\"|\")" % lit, ("out", t + "|\n"), meta=(t, lit)))
    # block form with uniform indentation: each line = extra spaces + visible text
    words = ["hello", "wor ld", "say \"hi\"", "x", "é€", "tab\\there", "a'b", "{}"]
    for _ in range(600 if ctx.quick else 5000):
        ind = r.choice([0, 2, 4, 8])
        # the same indentation may be spelled with tabs (a tab is four columns), per block or per line
        tabs = r.choice([0, 0, 0, 1, 2]) if ind >= 4 else 0
        nl = r.range(1, 5)
        lines, exp = [], []
        for i in range(nl):
            if r.chance(22) and 0 < i < nl - 1:
                # a blank line; it may carry spaces, at most as many as the block is indented by
                # (whichever way indentation is stripped, nothing of such a line is left)
                lines.append(" " * r.choice([0, 0, min(1, ind), ind // 2, ind]))
                exp.append("")
                continue
            # the least indented content line sits at the closer's indentation, so that "strip the
            # common indentation" and "strip the closer's indentation" (both consistent with the
            # documented examples/tests) denote the same text
            extra = " " * r.choice([0, 0, 2, 4]) if any(x != "" for x in exp) else ""
            w = r.choice(words)
            lines.append(indent_text(ind, r, tabs) + extra + w)
            exp.append(extra + w.replace("\\t", "\t"))
        src = 'let s = """\n' + "\n".join(lines) + "\n" + indent_text(ind, r, tabs) + '"""\nprint(s)\nprintln("|")'
        n += 1
        cases.append(Case("string triple-block #%d" % n, src, ("out", "\n".join(exp) + "|\n"), meta=("\n".join(exp), src)))
    return cases


def indent_text(ind, r, tabs):
    """`ind` columns of indentation: spaces (tabs=0), tabs (1), or either, chosen per line (2)"""
    if tabs == 0 or (tabs == 2 and r.chance(50)):
        return " " * ind
    return "\t" * (ind // 4)


def run(ctx):
    r = ctx.rng.fork("c30")
    cases = int_cases(ctx, r) + float_cases(ctx, r) + string_cases(ctx, r)
    nruns, observed, failures = run_cases(ctx, "c30", cases, lambda c: "C30 " + c.key + (" lit=" + c.meta[1] if c.meta else ""), per_prog=120)
    # out-of-range literals: compile-only jobs
    rj = reject_cases(ctx, r)
    jobs = [{"id": "rej%03d" % i, "mode": "check", "files": {"main.abra": src}} for i, (name, src) in enumerate(rj)]
    results = ctx.run(jobs)
    nrej = 0
    for (name, src), job in zip(rj, jobs):
        def judge(res, name=name):
            sig = "C30 " + name
            c = res.get("check", {})
            if c.get("panic"):
                return [(sig, "compiler panicked on an out-of-range literal: %s" % c["panic"])]
            if c.get("ok"):
                return [(sig, "out-of-range literal was accepted without a diagnostic")]
            return []
        nrej += 1
        for sig, what in judge(results[job["id"]]):
            ctx.candidate(sig, what, job, judge)
    ctx.coverage(
        evaluations=nruns + nrej,
        distinct_nontrivial=len(observed) + nrej,
        rule="case = one literal spelling (integer with separators/leading zeros/negation, float digit strings, string in each quote "
             "style with a random escape choice per character, triple-quoted inline and block forms) whose printed value was compared "
             "with the intended value; plus out-of-range numeric literals that must be rejected",
        samples=[{"case": c.key, "program": c.body[:300], "expected": c.expect[1] if isinstance(c.expect, tuple) else "float bits"} for c in (cases[0], cases[-1])],
        reject_cases=nrej,
        failures=failures[:20],
    )
    ctx.need(len(observed) >= 0.98 * len({c.key for c in cases}), "only %d of %d cases observed" % (len(observed), len(cases)))


def replay(ctx, rep):
    res = ctx.ex.run_alone(rep["job"])
    print(__import__("json").dumps(res)[:3000])
