"""Match universe (C12, C13, C14): exhaustive enumeration of small scrutinee types x arm lists,
with a brute-force pattern matcher over a finite value universe as the oracle.

Types are concrete (generics are instantiated). For int/float/string the universe is the set of
literals used by the patterns of that type plus one fresh value, which is a faithful abstraction
because arms can only mention those literals."""
import itertools

from checks.abra import strlit

# ---- types --------------------------------------------------------------------------------
# ('bool',) ('void',) ('int',) ('str',) ('float',)
# ('tuple', (T..))
# ('struct', name, ((fname, T)..), annotation)
# ('enum', name, ((variant, ((fname|None, T)..))..), annotation, ctor_prefix)

BOOL, VOID, INT, STR, FLOAT = ("bool",), ("void",), ("int",), ("str",), ("float",)
INT_LITS = [0, 1]
STR_LITS = ["a", ""]
FLOAT_LITS = [("1.0", 1.0), ("1.00", 1.0), ("2.5", 2.5),
              # neighbouring doubles and values far below 1: distinct constructors, however close
              ("0.3", 0.3), ("0.30000000000000004", 0.30000000000000004),
              ("0.0000000000000001", 1e-16), ("0.0000000000000002", 2e-16)]


def float_spell(v):
    r = repr(v)
    if "e" in r:
        import decimal
        r = format(decimal.Decimal(r), "f")
    return r


def ann(t):
    k = t[0]
    if k == "str":
        return "string"
    if k in ("bool", "void", "int", "float"):
        return k
    if k == "tuple":
        return "(" + ", ".join(ann(x) for x in t[1]) + ")"
    return t[3]


def values(t):
    k = t[0]
    if k == "bool":
        return [True, False]
    if k == "void":
        return [None]
    if k == "int":
        return INT_LITS + [7]
    if k == "str":
        return STR_LITS + ["zz"]
    if k == "float":
        return [1.0, 2.5, 9.5, 0.3, 0.30000000000000004, 1e-16, 2e-16]
    if k == "tuple":
        return [("T",) + c for c in itertools.product(*[values(x) for x in t[1]])]
    if k == "struct":
        return [("S", t[1]) + c for c in itertools.product(*[values(ft) for _f, ft in t[2]])]
    if k == "enum":
        out = []
        for vname, fields in t[2]:
            for c in itertools.product(*[values(ft) for _f, ft in fields]):
                out.append(("V", vname) + c)
        return out
    raise ValueError(t)


def vexpr(t, v):
    """Abra expression constructing value v of type t"""
    k = t[0]
    if k == "bool":
        return "true" if v else "false"
    if k == "void":
        return "nil"
    if k == "int":
        return str(v)
    if k == "str":
        return strlit(v)
    if k == "float":
        return float_spell(v)
    if k == "tuple":
        return "(" + ", ".join(vexpr(x, y) for x, y in zip(t[1], v[1:])) + ")"
    if k == "struct":
        return "%s(%s)" % (t[1], ", ".join(vexpr(ft, y) for (_f, ft), y in zip(t[2], v[2:])))
    if k == "enum":
        fields = dict(t[2])[v[1]]
        if not fields:
            return "%s.%s" % (t[4], v[1])
        return "%s.%s(%s)" % (t[4], v[1], ", ".join(vexpr(ft, y) for (_f, ft), y in zip(fields, v[2:])))
    raise ValueError(t)


def vrender(t, v):
    """how a bound variable of printable type prints"""
    k = t[0]
    if k == "bool":
        return "true" if v else "false"
    if k == "void":
        return "nil"
    if k == "int":
        return str(v)
    if k == "str":
        return v
    if k == "tuple":
        return "(" + ", ".join(vrender(x, y) for x, y in zip(t[1], v[1:])) + ")"
    return None


def printable(t):
    if t[0] in ("bool", "void", "int", "str"):
        return True
    if t[0] == "tuple":
        return 2 <= len(t[1]) <= 4 and all(printable(x) for x in t[1])
    return False


# ---- patterns -----------------------------------------------------------------------------
# ('_',) ('b', name) ('lit', value, spelling) ('tup', [p]) ('st', [p], named_order|None)
# ('v', variant, [p], named_order|None) ('or', [p, p])

def ppat(t, p):
    k = p[0]
    if k == "_":
        return "_"
    if k == "b":
        return p[1]
    if k == "lit":
        return p[2]
    if k == "tup":
        return "(" + ", ".join(ppat(x, q) for x, q in zip(t[1], p[1])) + ")"
    if k == "st":
        fs = t[2]
        if p[2] is None:
            return "%s(%s)" % (t[1], ", ".join(ppat(ft, q) for (_f, ft), q in zip(fs, p[1])))
        parts = []
        for idx in p[2]:
            parts.append("%s = %s" % (fs[idx][0], ppat(fs[idx][1], p[1][idx])))
        return "%s(%s)" % (t[1], ", ".join(parts))
    if k == "v":
        fields = dict(t[2])[p[1]]
        if not fields:
            return "." + p[1]
        if p[3] is None:
            return ".%s(%s)" % (p[1], ", ".join(ppat(ft, q) for (_f, ft), q in zip(fields, p[2])))
        parts = []
        for idx in p[3]:
            parts.append("%s = %s" % (fields[idx][0], ppat(fields[idx][1], p[2][idx])))
        return ".%s(%s)" % (p[1], ", ".join(parts))
    if k == "or":
        return " | ".join(ppat(t, q) for q in p[1])
    raise ValueError(p)


def matches(t, p, v, binds=None):
    k = p[0]
    if k == "_":
        return True
    if k == "b":
        if binds is not None:
            binds[p[1]] = (t, v)
        return True
    if k == "lit":
        return p[1] == v and type(p[1]) == type(v)
    if k == "tup":
        return all(matches(x, q, y, binds) for x, q, y in zip(t[1], p[1], v[1:]))
    if k == "st":
        return all(matches(ft, q, y, binds) for (_f, ft), q, y in zip(t[2], p[1], v[2:]))
    if k == "v":
        if v[1] != p[1]:
            return False
        fields = dict(t[2])[p[1]]
        return all(matches(ft, q, y, binds) for (_f, ft), q, y in zip(fields, p[2], v[2:]))
    if k == "or":
        for q in p[1]:
            b2 = {} if binds is not None else None
            if matches(t, q, v, b2):
                if binds is not None:
                    binds.update(b2)
                return True
        return False
    raise ValueError(p)


def bound_names(t, p):
    k = p[0]
    if k == "b":
        return [(p[1], t)]
    if k == "tup":
        return [b for x, q in zip(t[1], p[1]) for b in bound_names(x, q)]
    if k == "st":
        return [b for (_f, ft), q in zip(t[2], p[1]) for b in bound_names(ft, q)]
    if k == "v":
        fields = dict(t[2])[p[1]]
        return [b for (_f, ft), q in zip(fields, p[2]) for b in bound_names(ft, q)]
    if k == "or":
        return bound_names(t, p[1][0])
    return []


# ---- pattern pools ------------------------------------------------------------------------

def pool(t, depth, with_bind=True, fresh=[0]):
    """patterns for type t; small but covering each form"""
    k = t[0]
    out = [("_",)]
    if k == "bool":
        out += [("lit", True, "true"), ("lit", False, "false")]
    elif k == "void":
        out += [("lit", None, "nil")]
    elif k == "int":
        out += [("lit", x, str(x)) for x in INT_LITS]
    elif k == "str":
        out += [("lit", x, strlit(x)) for x in STR_LITS]
    elif k == "float":
        out += [("lit", v, sp) for sp, v in FLOAT_LITS]
    elif k == "tuple":
        subs = [small_pool(x, depth - 1) for x in t[1]]
        for c in itertools.product(*subs):
            if all(q[0] == "_" for q in c):
                continue
            out.append(("tup", list(c)))
    elif k == "struct":
        subs = [small_pool(ft, depth - 1) for _f, ft in t[2]]
        n = 0
        for c in itertools.product(*subs):
            n += 1
            out.append(("st", list(c), named_order(len(t[2]), n)))
    elif k == "enum":
        n = 0
        for vname, fields in t[2]:
            if not fields:
                out.append(("v", vname, [], None))
                continue
            subs = [small_pool(ft, depth - 1) for _f, ft in fields]
            for c in itertools.product(*subs):
                n += 1
                named = named_order(len(fields), n) if all(f is not None for f, _t in fields) else None
                out.append(("v", vname, list(c), named))
    return out


def named_order(nf, n):
    """positional (None) for every third pattern, otherwise by name in one of the orders: as
    declared, reversed, and - from three fields on - every other permutation (partially out of
    order ones included)"""
    if n % 3 == 0:
        return None
    perms = [list(p) for p in itertools.permutations(range(nf))]
    order = [perms[0], perms[-1]] + perms[1:-1]
    return order[(n // 3) % len(order)]


def small_pool(t, depth):
    """sub-pattern choices: wildcard, literals / constructors (one level), never bindings"""
    k = t[0]
    if k in ("bool", "void", "int", "str", "float") or depth <= 0:
        p = pool(t, 0) if k in ("bool", "void", "int", "str", "float") else [("_",)]
        if k == "int":
            p = p[:2] + [("or", [p[1], p[2]])]
        if k == "str":
            p = p[:2]
        if k == "float":
            p = p[:3]
        if k == "bool":
            p = p + [("or", [p[1], p[2]]), ("or", [p[2], p[2]])]
        return p
    pl = pool(t, depth)
    if k == "enum" and len(pl) >= 3:
        pl = pl + [("or", [pl[1], pl[2]])]
    return pl


def add_bindings(t, p, counter):
    """replace some wildcards by bindings (deterministically: every second wildcard)"""
    k = p[0]
    if k == "_":
        counter[0] += 1
        if counter[0] % 2 == 0:
            return ("b", "b%d" % counter[0])
        return p
    if k == "tup":
        return ("tup", [add_bindings(x, q, counter) for x, q in zip(t[1], p[1])])
    if k == "st":
        return ("st", [add_bindings(ft, q, counter) for (_f, ft), q in zip(t[2], p[1])], p[2])
    if k == "v":
        fields = dict(t[2])[p[1]]
        return ("v", p[1], [add_bindings(ft, q, counter) for (_f, ft), q in zip(fields, p[2])], p[3])
    return p


# ---- the type universe --------------------------------------------------------------------

def enum(name, variants, annotation=None, prefix=None):
    return ("enum", name, tuple((v, tuple(fs)) for v, fs in variants), annotation or name, prefix or name)


def struct(name, fields):
    return ("struct", name, tuple(fields), name)


def universe(tier):
    """-> (decls text, [types])"""
    decls = []
    T = []
    E1 = enum("Ea", [("Aa", []), ("Bb", [])])
    E2 = enum("Eb", [("Cc", []), ("Dd", [(None, BOOL)]), ("Ee", [(None, BOOL), (None, BOOL)])])
    E3 = enum("Ec", [("Ff", [("p", BOOL), ("q", BOOL)]), ("Gg", [(None, VOID)]), ("Hh", [])])
    E4 = enum("Ed", [("Ii", [(None, E1)]), ("Jj", [(None, BOOL), (None, VOID)])])
    S1 = struct("Sa", [("x", BOOL), ("y", BOOL)])
    S2 = struct("Sb", [("u", BOOL), ("w", VOID)])
    S3 = struct("Sc", [("e", E1), ("f", BOOL)])
    S4 = struct("Sd", [("a", BOOL), ("b", E1), ("c", BOOL)])
    E5 = enum("Ef", [("Mm", [("p", BOOL), ("q", E1), ("r", BOOL)]), ("Nn", [])])
    OPT_B = enum("option", [("some", [(None, BOOL)]), ("none", [])], "option<bool>", "option")
    OPT_OPT = enum("option", [("some", [(None, OPT_B)]), ("none", [])], "option<option<bool>>", "option")
    RES = enum("result", [("ok", [(None, BOOL)]), ("err", [(None, E1)])], "result<bool, Ea>", "result")
    BOX_B = struct("Bx", [("v", BOOL)])
    GEN = enum("Ge", [("Kk", [(None, BOOL)]), ("Ll", [])], "Ge<bool>", "Ge")
    GEN2 = enum("Gp", [("Two", [(None, BOOL), (None, BOOL)]), ("Zero", [])], "Gp<bool>", "Gp")
    GEN3 = enum("Gq", [("Mix", [(None, BOOL), (None, E1)]), ("Solo", [(None, E1)])], "Gq<bool, Ea>", "Gq")
    decls.append("type Ea = | Aa | Bb")
    decls.append("type Eb = | Cc | Dd(bool) | Ee(bool, bool)")
    decls.append("type Ec = | Ff(p: bool, q: bool) | Gg(void) | Hh")
    decls.append("type Ed = | Ii(Ea) | Jj(bool, void)")
    decls.append("type Sa = {\n  x: bool\n  y: bool\n}")
    decls.append("type Sb = {\n  u: bool\n  w: void\n}")
    decls.append("type Sc = {\n  e: Ea\n  f: bool\n}")
    decls.append("type Bx = {\n  v: bool\n}")
    decls.append("type Sd = {\n  a: bool\n  b: Ea\n  c: bool\n}")
    decls.append("type Ef = | Mm(p: bool, q: Ea, r: bool) | Nn")
    decls.append("type Ge<T> = | Kk(T) | Ll")
    decls.append("type Gp<T> = | Two(T, T) | Zero")
    decls.append("type Gq<T, U> = | Mix(T, U) | Solo(U)")
    T += [BOOL, VOID, INT, STR, FLOAT, ("tuple", (BOOL, BOOL)), ("tuple", (BOOL, VOID)), ("tuple", (INT, BOOL)),
          ("tuple", (BOOL, E1)), E1, E2, E3, E4, E5, S1, S2, S3, S4, OPT_B, RES, GEN, GEN2, GEN3, BOX_B, ("tuple", (STR, BOOL))]
    if tier != "quick":
        T += [OPT_OPT, ("tuple", (BOOL, BOOL, BOOL)), ("tuple", (E1, E1)), ("tuple", (OPT_B, BOOL)), ("tuple", (FLOAT, BOOL))]
    else:
        T += [OPT_OPT]
    return "\n".join(decls) + "\n", T


class Match:
    __slots__ = ("idx", "t", "arms", "ctx")

    def __init__(self, idx, t, arms, ctx="fn"):
        self.idx, self.t, self.arms, self.ctx = idx, t, arms, ctx

    def key(self):
        return "%s ctx=%s :: %s" % (ann(self.t), self.ctx, " ; ".join(ppat(self.t, a) for a in self.arms))


def or_pats(t, pl, rng, n):
    out = []
    cands = [p for p in pl if p[0] != "_"]
    for _ in range(n):
        if len(cands) < 2:
            break
        a, b = rng.choice(cands), rng.choice(cands)
        out.append(("or", [a, b]))
    return out


def gen_matches(rng, tier):
    decls, T = universe(tier)
    ms = []
    idx = 0
    max_arms = 3
    for t in T:
        pl = pool(t, 2)
        cap_pool = 9 if tier == "quick" else 14
        if len(pl) > cap_pool:
            keep = [pl[0]] + rng.sample(pl[1:], cap_pool - 1)
        else:
            keep = list(pl)
        keep += or_pats(t, pl, rng, 2)
        lists = []
        for n in range(1, max_arms + 1):
            for c in itertools.product(keep, repeat=n):
                lists.append(list(c))
        cap = 900 if tier == "quick" else 5000
        if len(lists) > cap:
            short = [l for l in lists if len(l) <= 2]
            long_ = [l for l in lists if len(l) > 2]
            rng.shuffle(long_)
            if len(short) > cap:
                rng.shuffle(short)
                short = short[:cap]
            lists = short + long_[:max(0, cap - len(short))]
        if tier != "quick" and len(values(t)) <= 4:
            # 4-arm lists on the small types
            extra = [list(c) for c in itertools.product(keep[:6], repeat=4)]
            rng.shuffle(extra)
            lists += extra[:800]
        for arms in lists:
            cnt = [idx]
            arms2 = [add_bindings(t, a, cnt) if a[0] != "or" else a for a in arms]
            # bindings must be unique per arm: add_bindings numbers them by a running counter
            ctx = {5: "lambda", 11: "task", 2: "arm", 7: "scrutinee", 13: "if", 17: "while", 19: "for", 21: "operand"}.get(idx % 23, "fn")
            ms.append(Match(idx, t, arms2, ctx))
            idx += 1
    return decls, ms


# ---- brute force --------------------------------------------------------------------------

def brute(m):
    """-> (first matching arm per value (or None), set of reachable arms, redundant arms)"""
    vals = values(m.t)
    first = []
    for v in vals:
        hit = None
        for i, a in enumerate(m.arms):
            if matches(m.t, a, v):
                hit = i
                break
        first.append(hit)
    reachable = {i for i in first if i is not None}
    redundant = []
    for i, a in enumerate(m.arms):
        covered = [v for v in vals if matches(m.t, a, v)]
        if all(any(matches(m.t, m.arms[j], v) for j in range(i)) for v in covered):
            redundant.append(i)
    return first, reachable, redundant


# ---- emission -----------------------------------------------------------------------------

def emit_check(decls, ms):
    """one file with every match in its own function; -> (source, [(lo, hi, arm ranges)])
    positions are character offsets of `match` expressions (ASCII only, so bytes = chars)."""
    parts = [decls]
    pos = len(decls)
    spans = []
    for m in ms:
        head = "fn m%d(x: %s) -> int {\n" % (m.idx, ann(m.t))
        pre = ""
        post = ""
        if m.ctx == "lambda":
            pre = "  let f = (y: %s) -> " % ann(m.t)
            post = "\n  f(x)"
            scrut = "y"
        elif m.ctx == "task":
            pre = "  task {\n    let r = "
            post = "\n    println(r)\n  }\n  0"
            scrut = "x"
        elif m.ctx == "arm":          # the match is the body of an arm of an enclosing match
            pre = "  match 1 {\n    1 -> "
            post = "\n    _ -> 0\n  }"
            scrut = "x"
        elif m.ctx == "scrutinee":    # the match is the scrutinee of an enclosing match
            pre = "  match ("
            post = ") {\n    _ -> 0\n  }"
            scrut = "x"
        elif m.ctx == "if":
            pre = "  if true { "
            post = " } else { 0 }"
            scrut = "x"
        elif m.ctx == "while":
            pre = "  var w = 0\n  while w < 1 {\n    w = w + 1\n    let r = "
            post = "\n  }\n  0"
            scrut = "x"
        elif m.ctx == "for":
            pre = "  for q in 1 {\n    let r = "
            post = "\n  }\n  0"
            scrut = "x"
        elif m.ctx == "operand":
            pre = "  0 + ("
            post = ")"
            scrut = "x"
        else:
            pre = "  "
            scrut = "x"
        body_head = "match %s {\n" % scrut
        arms_txt = []
        arm_spans = []
        cur = pos + len(head) + len(pre) + len(body_head)
        for i, a in enumerate(m.arms):
            ptxt = ppat(m.t, a)
            line = "    %s -> %d\n" % (ptxt, i)
            arm_spans.append((cur + 4, cur + 4 + len(ptxt)))
            cur += len(line)
            arms_txt.append(line)
        body = body_head + "".join(arms_txt) + "  }"
        lo = pos + len(head) + len(pre)
        hi = lo + len(body)
        txt = head + pre + body + post + "\n}\n"
        spans.append((lo, hi, arm_spans))
        parts.append(txt)
        pos += len(txt)
    return "".join(parts), spans


def emit_run_case(m):
    """function + driver statements printing 'arm bindings' per universe value"""
    lines = ["fn mm(x: %s) {" % ann(m.t), "  match x {"]
    for i, a in enumerate(m.arms):
        bs = [(n, bt) for n, bt in bound_names(m.t, a) if printable(bt)]
        stmts = ['print("%d")' % i]
        for n, bt in bs:
            stmts.append('print(" %s=" .. %s)' % (n, n))
        stmts.append('println("")')
        lines.append("    %s -> { %s }" % (ppat(m.t, a), "; ".join(stmts)))
    lines += ["  }", "}"]
    return "\n".join(lines)


def expected_run_output(m):
    out = []
    for v in values(m.t):
        hit = None
        for i, a in enumerate(m.arms):
            b = {}
            if matches(m.t, a, v, b):
                hit = (i, a, b)
                break
        if hit is None:
            out.append("NOARM\n")
            continue
        i, a, b = hit
        s = str(i)
        for n, bt in bound_names(m.t, a):
            if printable(bt):
                s += " %s=%s" % (n, vrender(bt, b[n][1]))
        out.append(s + "\n")
    return out


# ---- witnesses ----------------------------------------------------------------------------

class WParse:
    def __init__(self, s):
        self.s = s
        self.i = 0

    def peek(self, lit):
        return self.s.startswith(lit, self.i)

    def eat(self, lit):
        if self.s.startswith(lit, self.i):
            self.i += len(lit)
            return True
        return False


def parse_witness(t, w):
    """-> pattern (of our AST) or None if not parseable"""
    ps = WParse(w.strip())
    p = _pw(t, ps)
    if p is None or ps.i != len(ps.s):
        return None
    return p


def _pw(t, ps):
    if ps.eat("_"):
        return ("_",)
    k = t[0]
    if k == "bool":
        if ps.eat("true"):
            return ("lit", True, "true")
        if ps.eat("false"):
            return ("lit", False, "false")
        return None
    if k == "void":
        if ps.eat("()") or ps.eat("nil"):
            return ("lit", None, "nil")
        return None
    if k == "int":
        j = ps.i
        if j < len(ps.s) and ps.s[j] == "-":
            j += 1
        while j < len(ps.s) and ps.s[j].isdigit():
            j += 1
        if j == ps.i:
            return None
        v = int(ps.s[ps.i:j])
        ps.i = j
        return ("lit", v, str(v))
    if k in ("str", "float"):
        return None
    if k == "tuple":
        if not ps.eat("("):
            return None
        out = []
        for n, x in enumerate(t[1]):
            if n and not ps.eat(", "):
                return None
            q = _pw(x, ps)
            if q is None:
                return None
            out.append(q)
        if not ps.eat(")"):
            return None
        return ("tup", out)
    if k == "struct":
        if not ps.eat(t[1] + "("):
            return None
        out = []
        for n, (f, ft) in enumerate(t[2]):
            if n and not ps.eat(", "):
                return None
            if not ps.eat(f + " = "):
                return None
            q = _pw(ft, ps)
            if q is None:
                return None
            out.append(q)
        if not ps.eat(")"):
            return None
        return ("st", out, None)
    if k == "enum":
        # longest variant name first
        for vname, fields in sorted(t[2], key=lambda vf: -len(vf[0])):
            if ps.peek(vname):
                save = ps.i
                ps.eat(vname)
                if ps.eat(" of "):
                    if len(fields) == 1:
                        q = _pw(fields[0][1], ps)
                        if q is None:
                            ps.i = save
                            continue
                        return ("v", vname, [q], None)
                    tt = ("tuple", tuple(ft for _f, ft in fields))
                    q = _pw(tt, ps)
                    if q is None:
                        ps.i = save
                        continue
                    return ("v", vname, q[1] if q[0] == "tup" else [("_",)] * len(fields), None)
                return ("v", vname, [("_",)] * len(fields), None)
        return None
    return None
