"""C37 The interning set is a sound, order-preserving id map.

Model monitor + sanitizers on the real utils::IdSet (harness-utils): after every operation the set
is compared with a HashMap + Vec model (ids dense in insertion order, try_get_id, contains, Index,
len, is_empty, iter, &set into_iter, consuming into_iter); clones are kept aside and must keep
matching their snapshot while the original moves on, is cleared and refilled, or is dropped.
Operations: insert new, insert duplicate, lookup of absent values, index, iterate, clear,
clone-then-drop-original, clone-then-clear-and-refill-original, clone-and-keep-both, consuming
iteration, Default. Element types String (heap), u64 and () (zero-sized). The same sequences run
natively (model), under AddressSanitizer + LeakSanitizer and under Miri with tree borrows
(use-after-free, out-of-bounds, invalid references)."""
from checks import utilsan

LEVEL = "fault_enumeration"
PROP = "C37"
MIRI_OPS = "new,dup,lookup,iter,clear,clone_drop,clone_clear,clone_keep,into_iter"


def run(ctx):
    q = ctx.quick
    s = str(ctx.seed * 7919 + 37)
    plan = []
    for elem in ("string", "u64", "unit"):
        plan.append(("native", ["idset", "exhaustive", "4" if q else "5", elem], "exhaustive %s" % elem))
        plan.append(("native", ["idset", "random", s, "3000" if q else "60000", "70", elem], "random %s" % elem))
    plan.append(("asan", ["idset", "exhaustive", "4" if q else "5", "string"], "exhaustive string"))
    plan.append(("asan", ["idset", "random", s, "2000" if q else "40000", "70", "string"], "random string"))
    plan.append(("asan", ["idset", "random", s, "500" if q else "10000", "70", "unit"], "random unit"))
    plan.append(("miri", ["idset", "exhaustive", "2" if q else "3", "string", MIRI_OPS], "exhaustive string"))
    plan.append(("miri", ["idset", "random", s, "25" if q else "400", "40", "string"], "random string"))
    totals, per_kind = utilsan.run_plan(ctx, PROP, "idset", plan)
    ctx.coverage(
        evaluations=totals["sequences"],
        distinct_nontrivial=totals["sequences"],
        rule="evaluation = one operation sequence executed on a fresh IdSet with the model compared after every operation; exhaustive runs "
             "enumerate every sequence up to the stated length over the 11-operation alphabet (9 under Miri), random runs draw insertion-heavy "
             "sequences of up to 70 operations (buffer growth 2,4,8,...); sequences are distinct by construction in the exhaustive part",
        samples=[{"sequence": "string new,new,dup,clone_drop,iter,new,clone_keep,clear", "tools": ["native model", "AddressSanitizer+LeakSanitizer", "Miri -Zmiri-tree-borrows"]}],
        operations_executed=totals["ops"],
        per_tool=per_kind,
        exhaustive=True,
        exhaustive_note="all sequences up to length %s (native, ASan) / %s (Miri) were enumerated" % ("4" if q else "5", "2" if q else "3"),
    )
    ctx.need(all(k in per_kind for k in ("native", "asan", "miri")), "a tool produced no completed run: %s" % sorted(per_kind))


def replay(ctx, rep):
    j = rep["job"]
    rc, text = utilsan.invoke(j["kind"], j["args"])
    print(text[-3000:])
