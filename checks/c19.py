"""C19 Lambdas capture values at creation, including for nested lambdas.

Oracle: the reference interpreter (checks/progen.py), whose closures snapshot the values of the
visible bindings when the lambda expression is evaluated and give every invocation fresh locals.
Workload: the typed generator in its lambda-focused mode (lambdas with 0-2 parameters, lambdas
returning lambdas, lambdas created inside lambdas, loops, match arms and functions, stored,
passed and called later; `var`s reassigned before and after creation), plus named kernels for
the cases the statement lists: a variable used only by an inner lambda, only in a match
scrutinee, only on an assignment's left-hand side or only on its right-hand side, loop
variables, parameters, per-invocation locals."""
import vlib
from checks import progen, proglib
from checks.common import Case, observe, judge_case

LEVEL = "translation_validation"
PROP = "C19"

KERNELS = {
    "closure-chain": ("let a = 5\nlet f = (x: int) -> (y: int) -> x + y + a\nprintln(f(1)(2))\nlet g = f(10)\nprintln(g(1) .. \" \" .. g(2))\n", "8\n16 17\n"),
    "used-only-by-inner-lambda": ("""fn mk(p: int) -> (int -> int) {
  var l = p * 2
  let f = (a: int) -> {
    let g = (b: int) -> b + l + p * 1000
    g(a)
  }
  l = l + 100
  f
}
let h = mk(3)
println(h(1))
println(mk(4)(1))
""", "3007\n4009\n"),
    "used-only-in-match-scrutinee": ("""var k = 2
let f = () -> match k { 1 -> "one", 2 -> "two", _ -> "many" }
k = 1
println(f())
let g = () -> { let h = () -> match k { 1 -> "one", _ -> "other" }; h() }
k = 7
println(g())
""", "two\none\n"),
    "used-only-on-assignment-lhs": ("""let xs = [1, 2, 3]
var i = 1
let f = () -> { xs[i] = 9 }
i = 2
f()
println(xs)
""", "[ 1, 9, 3 ]\n"),
    "used-only-on-assignment-rhs": ("""fn run(a: int, p: int, q: int) -> int {
  let f = () -> {
    var l = 1
    l = l + a
    let h = (z: int) -> z + l + p * 1000 + q * 100000
    h(0)
  }
  f()
}
println(run(5, 7, 8))
""", "807006\n"),
    "reassign-before-and-after": ("""var x = 1
x = 2
let f = () -> x
x = 3
let g = () -> x
x = 4
println(f() .. " " .. g() .. " " .. x)
""", "2 3 4\n"),
    "loop-variable": ("""let fs: array<int -> int> = []
for i in 3 {
  fs.push((z: int) -> i * 10 + z)
}
var j = 0
while j < 3 {
  let k = j
  fs.push((z: int) -> k + 100 + z)
  j += 1
}
for f in fs { println(f(0)) }
""", None),
    "loop-variable-noann": ("""var acc = ""
for i in 3 {
  let f = () -> i * 10
  let g = () -> f() + 1
  acc = acc .. g() .. ","
}
println(acc)
""", "1,11,21,\n"),
    "per-invocation-locals": ("""let f = (n: int) -> {
  var acc = 0
  for j in n { acc += j }
  let inner = () -> acc + 1000
  inner() + acc
}
println(f(4))
println(f(4))
println(f(2))
""", "1012\n1012\n1002\n"),
    "captures-parameter-and-local-array": ("""fn adder(base: int) -> (int -> int) {
  let log = [base]
  (x: int) -> { log.push(x); base + x + log.len() }
}
let a1 = adder(10)
let a2 = adder(20)
println(a1(1))
println(a1(1))
println(a2(1))
""", "13\n14\n23\n"),
    "lambda-in-struct-and-passed": ("""type Op = {
  name: string
  f: int -> int
}
fn apply_twice(f: int -> int, x: int) -> int = f(f(x))
var m = 3
let op = Op("triple", (x: int) -> x * m)
m = 100
println(op.name .. " " .. apply_twice(op.f, 2))
let ops = [op, Op("inc", (x: int) -> x + m)]
m = 0
for o in ops {
  let ff = o.f
  println(o.name .. "=" .. ff(1))
}
""", None),
    "three-levels": ("""fn outer(a: int) -> int {
  var b = a + 1
  let l1 = (c: int) -> {
    var d = c + b
    let l2 = (e: int) -> {
      let l3 = (g: int) -> a + b + c + d + e + g
      l3(1)
    }
    d = d + 10
    l2(2)
  }
  b = b + 50
  l1(3)
}
println(outer(1))
""", None),
}
# expectations that need a little arithmetic, spelled out:
#  loop-variable: i*10 for i=0..2 then k+100 for k=0..2
KERNELS["loop-variable"] = (KERNELS["loop-variable"][0], "0\n10\n20\n100\n101\n102\n")
#  lambda-in-struct-and-passed: op.f captured m=3 -> f(f(2)) = 18; second op captured m=100 -> 101; op.f(1) = 3
KERNELS["lambda-in-struct-and-passed"] = (KERNELS["lambda-in-struct-and-passed"][0], "triple 18\ntriple=3\ninc=101\n")
#  three-levels: a=1, b=2 at creation of l1 (captured b=2); l1(3): c=3, d=3+2=5; l2 created capturing d=5, b=2 (l1's copy);
#  then l1's d -> 15 (l2 keeps 5) and outer's b -> 52 (l1 keeps 2); l2(2): e=2; l3 created capturing a=1,b=2,c=3,d=5,e=2; l3(1)=1+2+3+5+2+1=14
KERNELS["three-levels"] = (KERNELS["three-levels"][0], "14\n")


def job_of(jid, src):
    return {"id": jid, "files": {"main.abra": src}, "runs": [{"max_steps": 1500000}]}


def judge_prog(prog, res):
    comp = res.get("compile", {})
    cr = vlib.crash_of(res)
    if cr:
        return ("crash", cr[1])
    if not comp.get("ok"):
        if comp.get("panic"):
            return ("compile-panic", "compiler panic %s" % vlib.panic_sig(comp["panic"]))
        return None
    try:
        ref = progen.interpret(prog)
    except (progen.Unsupported, progen.TooBig, RecursionError):
        return None
    return proglib.compare(ref, prog["final_ty"], res["runs"][0])


def shrink(ctx, prog, cls):
    def fails(cands):
        jobs = []
        for i, c in enumerate(cands):
            try:
                s, _ = progen.emit(c)
            except Exception:
                s = "@@"
            jobs.append(job_of("s%04d" % i, s))
        rs = ctx.run(jobs)
        out = []
        for i, c in enumerate(cands):
            try:
                v = judge_prog(c, rs["s%04d" % i])
            except Exception:
                v = None
            out.append(bool(v) and v[0] == cls)
        return out
    return progen.shrink(prog, fails)


def run(ctx):
    n = 5000 if ctx.quick else 100000
    evals = agree = rejected = 0
    distinct = set()
    feats = {}
    disagreements = []
    samples = []
    chunk = 5000
    cfgs = [{"size": 45, "lambda_focus": True}, {"size": 70, "depth": 5, "lambda_focus": True}]
    for start in range(0, n, chunk):
        cfg = cfgs[(start // chunk) % 2]
        items, unsup = proglib.gen_batch(ctx.seed * 4409 + 19, min(chunk, n - start), cfg, start=start)
        results = ctx.run([job_of("p%06d" % idx, src) for (idx, prog, src, ref) in items])
        for (idx, prog, src, ref) in items:
            res = results["p%06d" % idx]
            comp = res.get("compile", {})
            if not comp.get("ok") and not comp.get("panic") and not vlib.crash_of(res):
                rejected += 1
                continue
            if "lambda" not in prog["features"]:
                continue
            evals += 1
            v = proglib.compare(ref, prog["final_ty"], res["runs"][0]) if comp.get("ok") else judge_prog(prog, res)
            if v is None:
                agree += 1
                distinct.add(vlib.h64(proglib.normalize(src)))
                for f in prog["features"]:
                    feats[f] = feats.get(f, 0) + 1
                if len(samples) < 2 and "lambda-returns-lambda" in prog["features"]:
                    samples.append({"program": src, "reference_output": ref["output"]})
            else:
                disagreements.append((idx, prog, src, v))
    seen = {}
    for (idx, prog, src, v) in disagreements[:(10 if ctx.quick else 40)]:
        small = shrink(ctx, prog, v[0])
        ssrc, _ = progen.emit(small)
        sig = "%s %s %s" % (PROP, v[0], vlib.hhex(proglib.normalize(ssrc)))
        if sig in seen:
            continue
        seen[sig] = True
        ctx.candidate(sig, "%s\n--- minimal program ---\n%s" % (v[1], ssrc), job_of("confirm", ssrc),
                      lambda res, small=small, sig=sig: [(sig, judge_prog(small, res)[1])] if judge_prog(small, res) else [])
    # kernels
    kjobs = [job_of("k-" + name, src) for name, (src, exp) in KERNELS.items()]
    kres = ctx.run(kjobs)
    for (name, (src, exp)), job in zip(KERNELS.items(), kjobs):
        def kj(res, name=name, exp=exp):
            sig = "%s kernel:%s" % (PROP, name)
            cr = vlib.crash_of(res)
            if cr:
                return [(sig, cr[1])]
            comp = res.get("compile", {})
            if not comp.get("ok"):
                return [(sig, "kernel did not compile: %s" % (comp.get("panic") or comp.get("errors", "")[:300]))]
            w = judge_case(Case(name, "", ("out", exp)), observe(res["runs"][0]))
            return [(sig, w)] if w else []
        evals += 1
        for sig, what in kj(kres[job["id"]]):
            ctx.candidate(sig, what + "\n--- program ---\n" + src, job, kj)
    ctx.coverage(
        evaluations=evals,
        distinct_nontrivial=len(distinct),
        rule="programs from the lambda-focused typed generator that contain at least one lambda, were accepted by the compiler and "
             "stay inside the reference interpreter's fragment; distinct = distinct alpha-renamed sources that agreed with the "
             "reference; plus %d named kernels" % len(KERNELS),
        samples=samples or [{"program": KERNELS["three-levels"][0], "expected": KERNELS["three-levels"][1]}],
        agreeing=agree,
        rejected_by_compiler=rejected,
        disagreements_checked=len(disagreements),
        constructs={k: v for k, v in sorted(feats.items()) if "lambda" in k or k.startswith("assign") or k.startswith("for") or k in ("while", "call", "shadow", "reassign-in-lambda-program")},
        kernels=sorted(KERNELS),
    )
    total = evals + rejected
    ctx.need(total > 0 and rejected <= 0.15 * total, "compiler rejected %d of %d generated programs" % (rejected, total))
    ctx.need(agree >= 300, "fewer than 300 lambda programs observed agreeing")
    ctx.need(feats.get("lambda-returns-lambda", 0) >= 20 and feats.get("lambda-call", 0) >= 100, "too few nested-lambda / lambda-call programs")


def replay(ctx, rep):
    res = ctx.ex.run_alone(rep["job"])
    print(__import__("json").dumps(res)[:3000])
