"""C34 Editor analysis never crashes on incomplete code.

Crash oracle on the editor API: `check_lsp`, `.errors()`, and `definition_at`, `type_at`,
`completions_at` at EVERY byte offset 0..=len+1 of the file (so also offsets inside multi-byte
characters and past the end). Inputs: every prefix of small programs ("a program being typed"),
sampled prefixes of larger ones, token- and character-level mutations, soups and truncated
constructs (checks/textmut.py), with non-ASCII text in strings, comments and identifiers
positions. A Rust panic, a process abort or no return within the watchdog is a violation."""
import vlib
from checks import textmut

LEVEL = "exploration"
PROP = "C34"

NONASCII_PROGRAMS = [
    ("nonascii-1", 'let tea = 3.5\nprintln("tea: " .. tea)\nlet s = "total ≈3.50 €"\nprintln(s)\nlet t = "…done."\n// → x.y\nprintln(s.len())\n'),
    ("nonascii-2", 'type Pt = {\n  x: int\n  y: int\n}\n/* é€🙂 */ let p = Pt(1, 2)\nlet q = "é".len() + p.x\nprintln(p.y) // 日本語.\nlet r = [p.x, q].len()\n'),
    ("task-block", 'let c: channel<int> = channel()\ntask {\n  let v = 5\n  c.write(v + 1)\n}\nlet w = c.read()\nprintln(w)\n'),
    ("members", 'type Person = {\n  name: string\n  age: int\n}\nextend Person {\n  fn greet(self, g: string = "hi") -> string = g .. " " .. self.name\n}\nlet p = Person("A", 3)\nprintln(p.greet())\nprintln(p.greet(g = "yo"))\nlet xs = [p, p]\nprintln(xs[0].name.len())\n'),
    ("enums", 'type Shape =\n  | Dot\n  | Circle(int)\n  | Rect(w: int, h: int)\nfn area(s: Shape) -> int {\n  match s {\n    .Dot -> 0\n    .Circle(r) -> r * r * 3\n    .Rect(w, h) -> w * h\n  }\n}\nprintln(area(Shape.Rect(2, 3)))\nprintln(area(.Circle(1)))\n'),
    ("patterns", 'type Point = {\n  x: int\n  y: int\n}\ntype Sh =\n  | Dot\n  | Rect(w: int, h: int = 2)\nfn area(s: Sh, scale: int = 1, off: int = 0) -> int {\n  match s {\n    .Dot -> off\n    .Rect(w = a, h = b) -> a * b * scale + off\n  }\n}\nlet p = Point(x = 1, y = 2)\nlet Point(x = a, y = b) = p\nlet Point(c, d) = p\nprintln(a + b + c + d)\nprintln(area(Sh.Rect(h = 3, w = 4), off = 1, scale = 2))\nmatch p {\n  Point(y = 2, x = k) -> println(k)\n  Point(x = _, y = m) -> println(m)\n}\nlet t = (p.x, [p.y, 3], Sh.Rect(w = 1))\n'),
    ("ifaces", 'interface Show2 {\n  fn show2(self) -> string\n}\nimplement Show2 for int {\n  fn show2(self) -> string = "i" .. self\n}\nfn f(x: T Show2) -> string = x.show2()\nprintln(f(3))\nlet g = (a, b) -> a + b\nprintln(g(1, 2))\n'),
]


def classify(res, job=None):
    cr = vlib.crash_of(res)
    if cr:
        if "crash" in res and job is not None:
            # a fatal signal (typically a stack overflow): name the recursion cycle with gdb
            d = vlib.diagnose_abort(dict(job, id="diag"))
            return ("abort %s" % (d or cr[0]), cr[1] + " " + d)
        return (cr[0], cr[1])
    if res.get("timeout"):
        return ("no-termination", "editor analysis did not return within the watchdog")
    l = res.get("lsp") or {}
    if l.get("panic"):
        return (vlib.panic_sig(l["panic"]), "panicked at cursor offset %s: %s" % (l.get("at_offset"), l["panic"]))
    return None


def run(ctx):
    r = ctx.rng.fork("c34")
    q = ctx.quick
    inputs = []
    corp = [(n, t) for (n, t) in textmut.corpus() if len(t) <= 1500] + list(NONASCII_PROGRAMS) + textmut.generated(ctx.seed * 877 + 34, 40 if q else 600)
    for name, text in corp:
        special = name.startswith("nonascii") or name in ("task-block", "members", "enums", "ifaces", "patterns")
        lim = 4000 if special else ((16 if q else 1600) if len(text) <= 1500 else (6 if q else 100))
        for p in textmut.prefixes(text, r.fork("p", name), lim):
            inputs.append(("prefix:" + name, p))
        for i in range(3 if q else 60):
            inputs.append(("tokmut:" + name, textmut.mutate_tokens(text, r.fork("t", name, i))))
        for i in range(3 if q else 60):
            inputs.append(("chrmut:" + name, textmut.mutate_chars(text, r.fork("c", name, i))))
        for i in range((60 if special else 4) if q else (1500 if special else 60)):
            inputs.append(("listmut:" + name, textmut.mutate_lists(text, r.fork("l", name, i))))
    for i in range(500 if q else 15000):
        inputs.append(("soup", textmut.soup(r.fork("s", i))))
    for i, t in enumerate(textmut.FIXED):
        inputs.append(("fixed:%d" % i, t))
    seen, uniq = set(), []
    for o, t in inputs:
        if t in seen or len(t) > 3000:
            continue
        seen.add(t)
        uniq.append((o, t))
    jobs = [{"id": "l%07d" % i, "mode": "lsp", "files": {"main.abra": t}, "std": True, "queries": "all", "render": True} for i, (o, t) in enumerate(uniq)]
    results = ctx.run(jobs, job_timeout_s=90)
    kinds = {}
    nq = defs = types = comps = diags = 0
    found = {}
    for job, (o, t) in zip(jobs, uniq):
        res = results[job["id"]]
        k = o.split(":")[0]
        kinds[k] = kinds.get(k, 0) + 1
        c = classify(res, job)
        if c:
            if c[0] not in found or len(t) < len(found[c[0]][1]):
                found[c[0]] = (o, t, c[1], job)
            continue
        l = res.get("lsp") or {}
        nq += l.get("queries", 0)
        defs += l.get("defs", 0)
        types += l.get("types", 0)
        comps += l.get("comps", 0)
        diags += len(l.get("diags") or [])
    for cls, (o, t, what, job) in found.items():
        sig = "%s %s" % (PROP, cls)
        ctx.candidate(sig, "%s\n--- input (%s, %d bytes) ---\n%s" % (what, o, len(t.encode()), t[:3000]), job,
                      lambda res, sig=sig, cls=cls, job=job: [(sig, c2[1]) for c2 in [classify(res, job)] if c2 and c2[0] == cls])
    ctx.coverage(
        evaluations=len(uniq),
        distinct_nontrivial=len(uniq),
        rule="evaluation = one distinct text analysed with check_lsp, errors() rendered, and definition_at/type_at/completions_at asked at "
             "every byte offset 0..=len+1; texts are deduplicated; cursor_queries counts the individual queries answered",
        samples=[{"origin": o, "text": t[:300]} for (o, t) in (uniq[1], uniq[len(uniq) // 2])],
        cursor_queries=nq,
        queries_with_definition=defs,
        queries_with_type=types,
        queries_with_completions=comps,
        diagnostics_returned=diags,
        inputs_by_kind=kinds,
        crash_sites_found=len(found),
    )
    ctx.need(len(uniq) >= 2000 and nq >= 500000, "too few texts / queries: %d texts, %d queries" % (len(uniq), nq))
    ctx.need(defs > 1000 and types > 1000 and comps > 100, "queries hardly ever answered: defs=%d types=%d completions=%d" % (defs, types, comps))


def replay(ctx, rep):
    res = ctx.ex.run_alone(rep["job"])
    print(__import__("json").dumps(res)[:3000])
