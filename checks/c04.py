"""C04 The compiler terminates with a result or diagnostics on any text.

Crash + termination oracle on `check` and `compile_bytecode`: a Rust panic, a process abort or
no return within the watchdog (re-run alone with a three times larger limit before it counts)
is a violation. Inputs: every char-boundary prefix of small programs and sampled prefixes of
larger ones, token-level mutations (delete / duplicate / swap / replace by another token kind /
drop a run), character-level mutations over a hostile alphabet (quotes, backslash, braces, /* */,
#!, CR, NUL, tabs, combining and 4-byte UTF-8 characters, long digit runs), token soups from the
vocabulary, nesting up to depth 64, and a fixed list of truncated constructs; corpus =
repository examples, module tests, prelude and core modules, sources embedded in the integration
tests, the book's code blocks and generated programs."""
import vlib
from checks import textmut

LEVEL = "exploration"
PROP = "C04"


def classify(res, job=None):
    """-> (class, description) or None"""
    cr = vlib.crash_of(res)
    if cr:
        if "crash" in res and job is not None:
            # a fatal signal (typically a stack overflow): name the recursion cycle with gdb
            d = vlib.diagnose_abort(dict(job, id="diag"))
            return ("abort %s" % (d or cr[0]), cr[1] + " " + d)
        return (cr[0], cr[1])
    if res.get("timeout"):
        return ("no-termination", "check/compile did not return within the watchdog (re-run alone with a 3x limit)")
    for phase in ("check", "compile"):
        p = (res.get(phase) or {}).get("panic")
        if p:
            return (vlib.panic_sig(p), "%s panicked: %s" % (phase, p))
    return None


def run(ctx):
    r = ctx.rng.fork("c04")
    q = ctx.quick
    inputs = []   # (origin, text)
    corp = textmut.corpus() + textmut.generated(ctx.seed * 911 + 4, 150 if q else 600)
    for name, text in corp:
        lim = (40 if q else 500) if len(text) <= 2000 else (12 if q else 150)
        for p in textmut.prefixes(text, r.fork("p", name), lim):
            inputs.append(("prefix:" + name, p))
        for i in range(8 if q else 80):
            inputs.append(("tokmut:" + name, textmut.mutate_tokens(text, r.fork("t", name, i))))
        for i in range(8 if q else 80):
            inputs.append(("chrmut:" + name, textmut.mutate_chars(text, r.fork("c", name, i))))
    for i in range(2500 if q else 30000):
        inputs.append(("soup", textmut.soup(r.fork("s", i))))
    for i in range(150 if q else 2000):
        inputs.append(("nested", textmut.nested(r.fork("n", i))))
    for i, t in enumerate(textmut.FIXED):
        inputs.append(("fixed:%d" % i, t))
        inputs.append(("fixed-tail:%d" % i, "let ok = 1\nprintln(ok)\n" + t))
    # C03's construct nests (context chain x payload): whole, and cut off / edited like the corpus
    from checks import c03
    nests = []
    for chain in [(c,) for c in c03.CONTEXTS] + ([(a, b) for a in c03.TOP_KINDS for b in ("lambda", "task", "dflt", "gfn")] if not q else []):
        for pl in c03.payloads(len(chain)):
            t = c03.build(chain, pl)
            if t is not None:
                nests.append((">".join(chain) + ":" + pl[0], t[len(c03.DECLS):] if not t.count("Pt(") else t))
    for name, t in nests:
        inputs.append(("nest:" + name, t))
    for name, t in r.sample(nests, min(len(nests), 60 if q else 400)):
        for p in textmut.prefixes(t, r.fork("np", name), 10 if q else 60):
            inputs.append(("nest-prefix:" + name, p))
        for i in range(2 if q else 20):
            inputs.append(("nest-listmut:" + name, textmut.mutate_lists(t, r.fork("nl", name, i))))
    # dedupe
    seen, uniq = set(), []
    for o, t in inputs:
        if t in seen:
            continue
        seen.add(t)
        uniq.append((o, t))
    jobs = [{"id": "i%07d" % i, "mode": "checkcompile", "files": {"main.abra": t}, "std": True} for i, (o, t) in enumerate(uniq)]
    # run in slices: the driver's watchdog (one hour per executor process) is for hangs, not for size
    results = {}
    for i in range(0, len(jobs), 150000):
        results.update(ctx.run(jobs[i:i + 150000], job_timeout_s=60))
    kinds = {}
    accepted = rejected = 0
    found = {}
    for job, (o, t) in zip(jobs, uniq):
        res = results[job["id"]]
        k = o.split(":")[0]
        kinds[k] = kinds.get(k, 0) + 1
        c = classify(res, job)
        if c:
            # keep the shortest input per call site
            if c[0] not in found or len(t) < len(found[c[0]][1]):
                found[c[0]] = (o, t, c[1], job)
            continue
        if (res.get("check") or {}).get("ok"):
            accepted += 1
        else:
            rejected += 1
    for cls, (o, t, what, job) in found.items():
        sig = "%s %s" % (PROP, cls)
        ctx.candidate(sig, "%s\n--- input (%s, %d chars) ---\n%s" % (what, o, len(t), t[:3000]), job,
                      lambda res, sig=sig, cls=cls, job=job: [(sig, c2[1]) for c2 in [classify(res, job)] if c2 and c2[0] == cls])
    ctx.coverage(
        evaluations=len(uniq),
        distinct_nontrivial=len(uniq),
        rule="evaluation = one distinct source text given to check and to compile_bytecode under catch_unwind and a watchdog; all texts are "
             "distinct (deduplicated); a text is non-trivial by construction (prefix, mutation, soup, nesting or truncated construct)",
        samples=[{"origin": o, "text": t[:300]} for (o, t) in (uniq[1], uniq[len(uniq) // 2], uniq[-1])],
        inputs_by_kind=kinds,
        accepted_by_checker=accepted,
        rejected_with_diagnostics=rejected,
        corpus_files=len(corp),
        crash_sites_found=len(found),
    )
    ctx.need(len(uniq) >= 5000 and rejected >= 1000 and accepted >= 100, "too few inputs / outcomes: %d texts, %d rejected, %d accepted" % (len(uniq), rejected, accepted))


def replay(ctx, rep):
    res = ctx.ex.run_alone(rep["job"])
    print(__import__("json").dumps(res)[:3000])
