"""C10 Results do not depend on how the embedder slices execution.

Differential oracle across schedules: the reference run gives the whole program one unbounded
budget and answers host requests immediately; every other slicing of the same program (constant
budgets, every cyclic budget sequence over {1,2,3} up to a length bound, seeded random sequences,
host replies delayed by d further calls) must produce the same printed output, final value and
runtime error text (kind, location and traceback).
Part B: deterministic channel networks (one writer and one reader per channel, one printing
task) must print the same text under every slicing; so must races between producers that
never read anything and write to one shared channel (their relative progress is fixed by the
round-robin of one instruction per runnable task, whatever the main program is waiting for)."""
import itertools

import vlib
from checks import progen, proglib, concgen

LEVEL = "exploration"
PROP = "C10"
KS = [1, 2, 3, 4, 5, 7, 8, 13, 16, 31, 64, 100, 1000, 4294967295]


def seqs(maxlen):
    out = []
    for n in range(2, maxlen + 1):
        for t in itertools.product((1, 2, 3), repeat=n):
            if len(set(t)) > 1:
                out.append(list(t))
    return out


def fam(seed, quick, max_steps=400000, net=False):
    """budget family. Networks: a reader blocked on an empty channel busy-waits, so while the main
    program waits for a host reply the other tasks burn the rest of the budget; budgets above
    1000 would only hit the step cap (inconclusive), so they are left out there and the
    reference run uses the CLI's own granularity (100)."""
    ks = [k for k in KS if k <= 1000] if net else KS
    extra = [[1, 1000], [7, 1, 64]] + ([] if net else [[2, 4294967295]])
    return {"kind": "budgets", "ks": ks, "seqs": seqs(3 if quick else 5) + extra,
            "nrand": 4 if quick else 24, "seed": seed, "delays": [1, 2, 5],
            "base": {"max_steps": max_steps}, "ref": {"budget": {"k": 100 if net else 4294967295}}}


STRING_KERNELS = {
    "concat-compare-long": """let a = "abcdefghijklmnopqrstuvwxyz" .. "0123456789"
var s = ""
for i in 6 { s = s .. a .. i }
println(s)
println(s == s .. "")
println(s < s .. "x")
println((s .. "y") > (s .. "x"))
let t = s .. s
println(t.len())
t == s .. s
""",
    "error-in-callee-after-prints": """fn f(n: int) -> int {
  println("f " .. n)
  if n == 0 { [1, 2][n + 5] } else { f(n - 1) + 1 }
}
println("start")
f(3)
""",
    "overflow-mid-string": """var acc = 9223372036854775800
var s = "p"
for i in 20 {
  s = s .. "-" .. acc
  print(s)
  acc = acc + 1
}
""",
    "division-by-zero-in-lambda": """let f = (d: int) -> 100 / d
var i = 3
while true {
  println(f(i))
  i -= 1
}
""",
    "panic-with-message": """fn g(x: int) -> int { if x > 2 { panic("too " .. "big " .. x) }; x }
for i in 5 { println(g(i)) }
""",
    "unwrap-none": """let xs: array<option<int>> = [option.some(1), option.none, option.some(3)]
for x in xs { println(x! .. "") }
""",
}


# the reading side of one channel passes from one handle to another (every capture and every
# channel sent in a message is a new handle on the same queue): what each handle receives must not
# depend on the budget
HANDOVER_KERNELS = {
    "reader-handed-to-later-task": """let records: channel<int> = channel()
let report: channel<int> = channel()
task {
  var i = 0
  while i < 400 {
    records.write(i)
    i = i + 1
  }
}
for k in 5 {
  println("header " .. records.read())
}
task {
  var sum = 0
  for k in 10 {
    sum = sum + records.read()
  }
  report.write(sum)
}
println("sum of the next ten: " .. report.read())
""",
    "reader-alternates-between-two-handles": """let data: channel<int> = channel()
let turn_a: channel<int> = channel()
let turn_b: channel<int> = channel()
let out: channel<string> = channel()
task {
  for i in 60 { data.write(i * 3) }
}
task {
  for r in 6 {
    let go = turn_a.read()
    var s = "a" .. r
    for k in 3 { s = s .. ":" .. data.read() }
    out.write(s)
    turn_b.write(1)
  }
}
task {
  for r in 6 {
    let go = turn_b.read()
    var s = "b" .. r
    for k in 2 { s = s .. ":" .. data.read() }
    out.write(s)
    turn_a.write(1)
  }
}
turn_a.write(1)
for r in 12 { println(out.read()) }
""",
    "channel-received-through-a-channel-then-read-by-both": """let data: channel<int> = channel()
let pass: channel<channel<int>> = channel()
let report: channel<int> = channel()
task {
  for i in 80 { data.write(i + 100) }
}
println(data.read())
println(data.read())
pass.write(data)
task {
  let mine = pass.read()
  var sum = 0
  for k in 7 { sum = sum + mine.read() }
  report.write(sum)
}
println("task read " .. report.read())
println(data.read())
""",
}


def judge(res, name, taskfree):
    out = []
    cr = vlib.crash_of(res)
    if cr:
        return [("%s %s abort" % (PROP, name), cr[1])]
    if not res.get("compile", {}).get("ok"):
        return []
    g = res["gen"]
    ref = g["ref"]
    if ref.get("status") not in ("done", "error"):
        return []
    for d in g["diffs"] + g["viols"]:
        o = d["outcome"]
        if o.get("status") == "cap":
            # a slicing that needs more instructions than the cap is not a verdict (blocked readers spin)
            if taskfree:
                out.append(("%s %s cap-under-slicing" % (PROP, name),
                            "under %s the run hit the step cap but the unsliced run finished in %s steps" % (d["variant"], ref.get("steps"))))
            continue
        out.append(("%s %s differs-under-slicing" % (PROP, name),
                    "under %s: status=%s output=%r top=%s err=%r panic=%s; unsliced: status=%s output=%r top=%s err=%r" % (
                        d["variant"], o.get("status"), (o.get("output") or "")[-120:], o.get("top"), (o.get("err") or "")[:200], o.get("panic"),
                        ref.get("status"), (ref.get("output") or "")[-120:], ref.get("top"), (ref.get("err") or "")[:200])))
    seen, uniq = set(), []
    for s, w in out:
        if s not in seen:
            seen.add(s)
            uniq.append((s, w))
    return uniq


def run(ctx):
    jobs, meta = [], {}
    for name, src in STRING_KERNELS.items():
        jid = "k-" + name
        jobs.append({"id": jid, "files": {"main.abra": src}, "run_gen": fam(ctx.seed, ctx.quick)})
        meta[jid] = ("kernel:" + name, src, True)
    for name, src in HANDOVER_KERNELS.items():
        jid = "h-" + name
        jobs.append({"id": jid, "files": {"main.abra": src}, "run_gen": fam(ctx.seed, ctx.quick, max_steps=1500000, net=True)})
        meta[jid] = ("kernel:" + name, src, False)
    n = 2400 if ctx.quick else 30000
    cfgs = [{"size": 45, "hosts": True}, {"size": 60, "depth": 5, "hosts": True}]
    items = []
    for ci, cfg in enumerate(cfgs):
        it, _ = proglib.gen_batch(ctx.seed * 31 + 1010 + ci, n // 2, cfg, keep_unsupported=True, start=ci * 1000000)
        items += it
    for (idx, prog, src, ref) in items:
        jid = "p%07d" % idx
        jobs.append({"id": jid, "files": {"main.abra": src}, "hosts": proglib.host_specs(prog), "run_gen": fam(idx, ctx.quick)})
        meta[jid] = ("gen:%s" % vlib.hhex(proglib.normalize(src))[:10], src, True)
    # part B: deterministic channel networks
    nets = concgen.gen_networks(ctx.seed * 17 + 5, 500 if ctx.quick else 6000, deterministic=True)
    for i, net in enumerate(nets):
        jid = "n%05d" % i
        jobs.append({"id": jid, "files": {"main.abra": net["src"]}, "run_gen": fam(i, ctx.quick, max_steps=1500000, net=True)})
        meta[jid] = ("net:%s" % vlib.hhex(net["src"])[:10], net["src"], False)
    # part B2: races between pure producers on one shared channel (arrival order fixed by the round-robin)
    races = [concgen.gen_race_network(vlib.Rng(ctx.seed * 41 + 77).fork(i)) for i in range(300 if ctx.quick else 5000)]
    for i, rn in enumerate(races):
        jid = "q%05d" % i
        jobs.append({"id": jid, "files": {"main.abra": rn["src"]}, "run_gen": fam(i, ctx.quick, max_steps=1500000, net=True)})
        meta[jid] = ("race:%s" % vlib.hhex(rn["src"])[:10], rn["src"], False)
    results = ctx.run(jobs)
    evals = 0
    distinct = set()
    scheds = 0
    kinds = {"taskfree": 0, "network": 0, "race": 0}
    err_programs = 0
    hostcalls = 0
    net_ref_mismatch = 0
    for job in jobs:
        res = results[job["id"]]
        name, src, taskfree = meta[job["id"]]
        for sig, what in judge(res, name, taskfree):
            ctx.candidate(sig, what + "\n--- program ---\n" + src, job, lambda r, name=name, tf=taskfree: judge(r, name, tf))
        g = res.get("gen")
        if not g or g["ref"].get("status") not in ("done", "error"):
            continue
        evals += g["variants"] + 1
        scheds += g["distinct_schedules"]
        distinct.add(name)
        kinds["taskfree" if taskfree else ("race" if name.startswith("race:") else "network")] += 1
        if g["ref"].get("status") == "error":
            err_programs += 1
        hostcalls += g["ref"].get("host_calls", 0)
    # the networks also have a python-side expected output (Kahn semantics): cross-check the reference run
    for i, net in enumerate(nets):
        res = results["n%05d" % i]
        g = res.get("gen")
        if g and g["ref"].get("status") == "done" and net.get("expect") is not None and g["ref"].get("output") != net["expect"]:
            net_ref_mismatch += 1
            sig = "%s net-output-vs-model %s" % (PROP, vlib.hhex(net["src"])[:10])
            ctx.candidate(sig, "unsliced run printed %r, the network model gives %r\n--- program ---\n%s" % (g["ref"].get("output"), net["expect"], net["src"]),
                          {"id": "confirm", "files": {"main.abra": net["src"]}, "runs": [{"max_steps": 1500000, "budget": {"k": 100}}]},
                          lambda r, sig=sig, net=net: [(sig, "output %r != %r" % (r["runs"][0].get("output"), net["expect"]))]
                          if r.get("runs") and r["runs"][0].get("status") == "done" and r["runs"][0].get("output") != net["expect"] else [])
    ctx.coverage(
        evaluations=evals,
        distinct_nontrivial=len(distinct),
        rule="evaluation = one execution of a program under one (budget plan, host-reply delay); distinct = programs whose unsliced "
             "reference run finished (done or runtime error) and which were then executed under the whole family; "
             "distinct_schedules = distinct (event-sequence hash, number of run_n_steps calls) pairs actually executed",
        samples=[{"program": STRING_KERNELS["error-in-callee-after-prints"], "budgets": KS, "sequences": len(seqs(3 if ctx.quick else 5)), "delays": [0, 1, 2, 5]}],
        distinct_schedules=scheds,
        program_kinds=kinds,
        programs_ending_in_runtime_error=err_programs,
        host_calls_in_reference_runs=hostcalls,
        budget_constants=KS,
        budget_sequences=len(seqs(3 if ctx.quick else 5)),
    )
    ctx.need(kinds["taskfree"] >= 200, "fewer than 200 task-free programs observed")
    ctx.need(kinds["network"] >= 50, "fewer than 50 channel networks observed")
    ctx.need(err_programs >= 10, "fewer than 10 programs ending in a runtime error observed")


def replay(ctx, rep):
    res = ctx.ex.run_alone(rep["job"])
    print(__import__("json").dumps(res)[:3000])
