"""C35 Go-to-definition and hover agree with the compiler.

Programs from checks/scopegen.py: names from a four-name pool are re-bound by let/var (incl. an
initialiser that uses the binding it shadows), destructuring lets, for variables, match-arm
bindings (an earlier arm binds names that later arms must not see), lambda and function
parameters, inside if/else, while, block expressions, lambdas and functions; every binding holds a
value unique in the program. Three observations per program:
  * running it prints, for every executed use, the value of the binding the COMPILER resolved the
    name to - compared with the model (innermost visible binding);
  * `definition_at` at the first and last byte of every use (executed or not) must return exactly
    the byte range of that binding's declared name, in the main file;
  * `type_at` there must be the binding's type as the checker renders it.
So the editor answer, the compiler's behaviour and the scoping model are pairwise compared."""
import vlib
from checks import scopegen

LEVEL = "exploration"
PROP = "C35"


def judge(p, res_run, res_lsp):
    out = []
    for res in (res_run, res_lsp):
        cr = vlib.crash_of(res)
        if cr:
            return [("abort", cr[1])]
    comp = res_run.get("compile", {})
    if not comp.get("ok"):
        return [("nocompile", "generated program rejected: %s" % (comp.get("panic") or comp.get("errors", "")[:400]))]
    run = res_run["runs"][0]
    if run.get("status") != "done":
        out.append(("run-status", "run ended with %s %s %s" % (run.get("status"), run.get("err"), run.get("panic"))))
    elif run.get("output") != p["expect"]:
        got, exp = run["output"].split("\n"), p["expect"].split("\n")
        i = next((i for i, (g, e) in enumerate(zip(got, exp)) if g != e), min(len(got), len(exp)))
        out.append(("compiler-resolution", "printed line %d is %r, the innermost visible binding holds %r" % (i, got[i] if i < len(got) else None, exp[i] if i < len(exp) else None)))
    l = res_lsp.get("lsp") or {}
    if l.get("panic"):
        return out + [(vlib.panic_sig(l["panic"]), "editor analysis panicked: %s" % l["panic"])]
    q = {d["off"]: d for d in (l.get("qdetail") or [])}
    main_id = l.get("main_file_id")
    b = p["src"].encode("utf-8")
    for (lo, hi, d, _printed) in p["uses"]:
        for off in (lo, hi - 1):
            a = q.get(off)
            if a is None:
                out.append(("no-answer", "no answer recorded for offset %d" % off))
                continue
            df = a.get("def")
            if df is None:
                out.append(("definition-missing", "no definition for %r at offset %d (line %d); expected the %s binding at [%d,%d)" % (
                    d.name, off, b[:off].count(b"\n") + 1, d.kind, d.lo, d.hi)))
            elif (df[0], df[1], df[2]) != (main_id, d.lo, d.hi):
                out.append(("definition", "%r at offset %d (line %d) goes to [%d,%d) = %r (line %d); the model's innermost binding is the %s at [%d,%d) (line %d)" % (
                    d.name, off, b[:off].count(b"\n") + 1, df[1], df[2], b[df[1]:df[2]].decode("utf-8", "replace"), b[:df[1]].count(b"\n") + 1,
                    d.kind, d.lo, d.hi, b[:d.lo].count(b"\n") + 1)))
            want = scopegen.TYPE_STR[d.ty]
            if a.get("type") != want:
                out.append(("hover", "hover on %r at offset %d says %r, the checker's type is %r" % (d.name, off, a.get("type"), want)))
    seen, uniq = set(), []
    for c, w in out:
        if c not in seen:
            seen.add(c)
            uniq.append((c, w))
    return uniq


def run(ctx):
    n = 1200 if ctx.quick else 25000
    r0 = vlib.Rng(ctx.seed * 7349 + 35)
    progs = [scopegen.ScopeGen(r0.fork(i)).gen() for i in range(n)]
    jobs = []
    for i, p in enumerate(progs):
        offs = sorted({o for (lo, hi, d, _) in p["uses"] for o in (lo, hi - 1)})
        jobs.append({"id": "r%06d" % i, "files": {"main.abra": p["src"]}, "runs": [{"max_steps": 500000}]})
        jobs.append({"id": "l%06d" % i, "mode": "lsp", "files": {"main.abra": p["src"]}, "queries": offs, "query_detail": True})
    results = ctx.run(jobs)
    ok = 0
    uses = 0
    feats = {}
    kinds = {}
    for i, p in enumerate(progs):
        rr, rl = results["r%06d" % i], results["l%06d" % i]
        found = judge(p, rr, rl)
        for cls, what in found:
            sig = "%s %s %s" % (PROP, cls, vlib.hhex(p["src"])[:10])
            job = {"id": "confirm", "mode": "lsp", "files": {"main.abra": p["src"]}, "queries": jobs[2 * i + 1]["queries"], "query_detail": True}

            def j(res_l, p=p, sig=sig, cls=cls, ctx=ctx):
                res_r = ctx.ex.run_alone({"id": "confirm-r", "files": {"main.abra": p["src"]}, "runs": [{"max_steps": 500000}]})
                return [(sig, w) for c, w in judge(p, res_r, res_l) if c == cls]
            ctx.candidate(sig, what + "\n--- program ---\n" + p["src"], job, j)
        if not found:
            ok += 1
            uses += len(p["uses"])
            for f in p["features"]:
                feats[f] = feats.get(f, 0) + 1
            for (_lo, _hi, d, _p) in p["uses"]:
                kinds[d.kind + ":" + d.ty] = kinds.get(d.kind + ":" + d.ty, 0) + 1
    ctx.coverage(
        evaluations=2 * len(progs),
        distinct_nontrivial=ok,
        rule="evaluation = one execution or one editor analysis of a generated program; distinct = programs (all different) for which the "
             "printed values, every go-to-definition answer and every hover answer equalled the scoping model; uses = identifier occurrences queried",
        samples=[{"program": progs[0]["src"], "uses": [(lo, hi, d.name, d.kind, [d.lo, d.hi], d.ty) for (lo, hi, d, _) in progs[0]["uses"]][:8]}],
        identifier_uses_checked=uses,
        binding_kinds_queried=dict(sorted(kinds.items())),
        constructs=dict(sorted(feats.items())),
    )
    ctx.need(ok >= 0.9 * len(progs) or bool(ctx.candidates), "fewer than 90% of the programs agreed")
    ctx.need(uses >= 3000, "fewer than 3000 identifier uses checked")


def replay(ctx, rep):
    res = ctx.ex.run_alone(rep["job"])
    print(__import__("json").dumps(res)[:3000])
