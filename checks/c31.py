"""C31 Expressions parse according to the documented precedence table.

The generator builds typed expression TREES; the printer writes them with the minimal
parentheses the documented table (book: operators.md) requires; the reference evaluates the
tree. If the parser groups an expression differently, the printed value differs."""
from checks.abra import strlit
from checks.common import Case, run_cases
from checks import progen

LEVEL = "exploration"
LEVELS = {"and": 1, "or": 1, "==": 2, "!=": 2, "..": 3, "<": 5, "<=": 5, ">": 5, ">=": 5, "+": 6, "-": 6, "*": 7, "/": 7, "%": 8, "^": 9}
NEG_LEVEL, NOT_LEVEL, LEAF = 6, 10, 99
VARS = {"a": 3, "b": -2, "c": 5, "d": 2, "t": True, "f": False, "s": "x"}
DECLS = ("fn verif_id(x: int) -> int = x\nfn verif_idb(x: bool) -> bool = x\nfn verif_ids(x: string) -> string = x\n")
PRE = "let a = verif_id(3)\nlet b = verif_id(-2)\nlet c = verif_id(5)\nlet d = verif_id(2)\nlet t = verif_idb(true)\nlet f = verif_idb(false)\nlet s = verif_ids(\"x\")\n"


def level(e):
    if e[0] == "bin":
        return LEVELS[e[1]]
    if e[0] == "neg":
        return NEG_LEVEL
    if e[0] == "not":
        return NOT_LEVEL
    if e[0] == "lit" and isinstance(e[1], int) and not isinstance(e[1], bool) and e[1] < 0:
        return LEAF  # a negative literal is a leaf: it must group like `-x` would NOT matter when parenthesised
    return LEAF


def show(e):
    k = e[0]
    if k == "var":
        return e[1]
    if k == "lit":
        v = e[1]
        if v is True:
            return "true"
        if v is False:
            return "false"
        if isinstance(v, int):
            return str(v)
        if isinstance(v, float):
            return repr(v)
        return strlit(v)
    if k == "neg":
        x = show(e[1])
        if level(e[1]) <= NEG_LEVEL or (e[1][0] == "lit" and isinstance(e[1][1], (int, float)) and e[1][1] < 0):
            x = "(" + x + ")"
        return "-" + x
    if k == "not":
        x = show(e[1])
        if level(e[1]) < NOT_LEVEL or e[1][0] == "not":
            x = "(" + x + ")" if level(e[1]) < NOT_LEVEL else x
        return "not " + x
    op, l, r = e[1], e[2], e[3]
    lv = LEVELS[op]
    ls, rs = show(l), show(r)
    if level(l) < lv:
        ls = "(" + ls + ")"
    if level(r) <= lv:
        rs = "(" + rs + ")"
    # a unary minus / negative literal as LEFT operand of a tighter operator must be parenthesised
    # to keep the tree's meaning: the tree says (-x) op y
    if l[0] == "neg" and lv > NEG_LEVEL and not ls.startswith("("):
        ls = "(" + ls + ")"
    return "%s %s %s" % (ls, op, rs)


def show_full(e):
    """fully parenthesised spelling of the tree (float cases compare it with the minimal one)"""
    k = e[0]
    if k in ("var", "lit"):
        return show(e)
    if k == "neg":
        return "(-" + show_full(e[1]) + ")"
    if k == "not":
        return "(not " + show_full(e[1]) + ")"
    return "(%s %s %s)" % (show_full(e[2]), e[1], show_full(e[3]))


FVARS = {"p": 2.5, "q": -1.5, "w": 2.0}
FPRE = "let p = verif_idf(2.5)\nlet q = verif_idf(-1.5)\nlet w = verif_idf(2.0)\n"
FDECLS = "fn verif_idf(x: float) -> float = x\n"


def fev(e):
    """python evaluation of a float tree, only to discard cases with NaN / infinities / division by zero"""
    k = e[0]
    if k == "var":
        return FVARS[e[1]]
    if k == "lit":
        return e[1]
    if k == "neg":
        return -fev(e[1])
    a, b = fev(e[2]), fev(e[3])
    op = e[1]
    if op == "+":
        return a + b
    if op == "-":
        return a - b
    if op == "*":
        return a * b
    if op == "/":
        return a / b
    if op == "^":
        return a ** b
    raise ValueError(op)


def fgen(r, d):
    if d == 0 or r.chance(15):
        k = r.below(10)
        if k < 4:
            return ("var", r.choice(["p", "q", "w"]))
        if k < 8:
            return ("lit", r.choice([0.5, 2.0, 3.0, 1.5]))
        return ("neg", ("lit", r.choice([2.0, 0.5, 3.0])))
    if r.chance(12):
        return ("neg", fgen(r, d - 1))
    op = r.choice(["+", "-", "*", "/", "^", "^", "*"])
    a, b = fgen(r, d - 1), fgen(r, d - 1)
    if op == "^":
        b = ("lit", r.choice([2.0, 3.0]))
    return ("bin", op, a, b)


def float_case(e):
    """-> Case or None. The minimally parenthesised spelling must denote the same value as the fully
    parenthesised one (no float rendering or pow reference is involved)."""
    import math
    try:
        v = fev(e)
    except (ZeroDivisionError, OverflowError, ValueError):
        return None
    if isinstance(v, complex) or math.isnan(v) or math.isinf(v):
        return None
    mn, fl = show(e), show_full(e)
    if mn == fl or mn == fl[1:-1]:
        return None
    body = FPRE + "let m = %s\nlet u = %s\nprintln(m == u)\nprintln(m < u or m > u)" % (mn, fl)
    return Case("fexpr %s" % mn, body, ("out", "true\nfalse\n"), FDECLS)


def neg_lit_tree(e):
    """rewrite Neg(lit n) nodes into the spelling `-n` WITHOUT parentheses: per the documented table
    this is unary minus applied to the literal, so the TREE keeps a neg node (level 6)."""
    return e


def ev(e):
    k = e[0]
    if k == "var":
        return VARS[e[1]]
    if k == "lit":
        return e[1]
    if k == "neg":
        return progen.chk(-ev(e[1]))
    if k == "not":
        return not ev(e[1])
    op = e[1]
    if op == "and":
        return ev(e[2]) and ev(e[3])
    if op == "or":
        return ev(e[2]) or ev(e[3])
    a, b = ev(e[2]), ev(e[3])
    if op in ("+", "-", "*", "/", "%", "^"):
        return progen.arith(op, a, b)
    if op == "..":
        return progen.render(a) + progen.render(b)
    if op == "==":
        return a == b
    if op == "!=":
        return a != b
    if op == "<":
        return progen.vlt(a, b)
    if op == ">":
        return progen.vlt(b, a)
    if op == "<=":
        return not progen.vlt(b, a)
    return not progen.vlt(a, b)


class G:
    def __init__(self, r):
        self.r = r

    def leaf(self, ty):
        r = self.r
        if ty == "int":
            k = r.below(10)
            if k < 4:
                return ("var", r.choice(["a", "b", "c", "d"]))
            if k < 8:
                return ("lit", r.range(0, 5))
            # negative literal: spelled `-n`, which the table reads as unary minus on n
            return ("neg", ("lit", r.range(1, 3)))
        if ty == "bool":
            return r.choice([("var", "t"), ("var", "f"), ("lit", True), ("lit", False)])
        return r.choice([("var", "s"), ("lit", "y"), ("lit", "")])

    def gen(self, ty, d):
        r = self.r
        if d == 0 or r.chance(15):
            return self.leaf(ty)
        if ty == "int":
            k = r.below(12)
            if k < 10:
                op = r.choice(["+", "-", "*", "/", "%", "^", "+", "-", "*", "%"])
                a = self.gen("int", d - 1)
                b = self.gen("int", d - 1)
                if op == "^":
                    b = ("lit", r.range(0, 3))
                return ("bin", op, a, b)
            return ("neg", self.gen("int", d - 1))
        if ty == "bool":
            k = r.below(12)
            if k < 4:
                return ("bin", r.choice(["and", "or"]), self.gen("bool", d - 1), self.gen("bool", d - 1))
            if k < 7:
                return ("bin", r.choice(["<", "<=", ">", ">="]), self.gen("int", d - 1), self.gen("int", d - 1))
            if k < 10:
                t = r.choice(["int", "bool", "string", "int"])
                return ("bin", r.choice(["==", "!="]), self.gen(t, d - 1), self.gen(t, d - 1))
            return ("not", self.gen("bool", d - 1))
        # string
        ta, tb = r.choice(["int", "string", "bool", "string"]), r.choice(["int", "string", "bool", "string"])
        return ("bin", "..", self.gen(ta, d - 1), self.gen(tb, d - 1))


def run(ctx):
    r = ctx.rng.fork("c31")
    g = G(r)
    n = 5000 if ctx.quick else 80000
    cases = []
    seen = set()
    tries = 0
    while len(cases) < n and tries < n * 5:
        tries += 1
        ty = r.choice(["int", "int", "bool", "string"])
        d = r.choice([1, 2, 2, 2, 3, 3, 4])
        e = g.gen(ty, d)
        txt = show(e)
        if txt in seen or e[0] in ("var", "lit"):
            continue
        seen.add(txt)
        try:
            v = ev(e)
            exp = ("out", progen.render(v) + "\n")
        except progen.AbraError as ex:
            exp = ("err", ex.kind)
        except progen.Unsupported:
            continue
        cases.append(Case("expr %s" % txt, PRE + "println(%s)" % txt, exp, DECLS))
    # fixed grid: every ordered pair of binary operators on int leaves, with variable / literal /
    # negative-literal leaves in each position: a op1 b op2 c
    ints = ["+", "-", "*", "/", "%", "^"]
    leafsets = [(("var", "a"), ("var", "b"), ("var", "d")), (("lit", 3), ("lit", 2), ("lit", 2)),
                (("neg", ("lit", 2)), ("lit", 3), ("lit", 2)), (("lit", 3), ("neg", ("lit", 2)), ("lit", 2)),
                (("neg", ("var", "d")), ("var", "a"), ("var", "d"))]
    for o1 in ints:
        for o2 in ints:
            for (x, y, z) in leafsets:
                for shape in (0, 1):
                    e = ("bin", o2, ("bin", o1, x, y), z) if shape == 0 else ("bin", o1, x, ("bin", o2, y, z))
                    txt = show(e)
                    if txt in seen:
                        continue
                    seen.add(txt)
                    try:
                        exp = ("out", progen.render(ev(e)) + "\n")
                    except progen.AbraError as ex:
                        exp = ("err", ex.kind)
                    except progen.Unsupported:
                        continue
                    cases.append(Case("expr %s" % txt, PRE + "println(%s)" % txt, exp, DECLS))
    # spelled first: an UNPARENTHESISED unary minus as the right operand of a tighter operator.
    # The table puts the minus on row 6, so its operand takes in the tighter operators that follow
    # (`x / -y * z` is `x / (-(y * z))`, as `-y * z` alone is `-(y * z)`) and stops at a looser one.
    tight = [o for o in ints if LEVELS[o] > NEG_LEVEL]
    tleaves = [(("var", "c"), ("var", "d"), ("var", "a")), (("lit", 100), ("lit", 2), ("lit", 5)), (("var", "c"), ("lit", 2), ("var", "a")),
               (("lit", 7), ("var", "d"), ("lit", 3))]
    for o1 in tight:
        for o2 in ints:
            for (x, y, z) in tleaves:
                for tail in (None, "+", "*"):
                    if LEVELS[o2] > NEG_LEVEL:
                        e = ("bin", o1, x, ("neg", ("bin", o2, y, z)))
                    else:
                        e = ("bin", o2, ("bin", o1, x, ("neg", y)), z)
                    txt = "%s %s -%s %s %s" % (show(x), o1, show(y), o2, show(z))
                    if tail == "+":
                        e = ("bin", "+", e, ("lit", 1))
                        txt += " + 1"
                    elif tail == "*":
                        if LEVELS[o2] <= NEG_LEVEL or o2 == "^" or LEVELS[o2] > LEVELS["*"]:
                            continue   # keep to shapes whose reading needs no further associativity rule
                        e = ("bin", o1, x, ("neg", ("bin", "*", ("bin", o2, y, z), ("lit", 2))))
                        txt += " * 2"
                    if txt in seen:
                        continue
                    seen.add(txt)
                    try:
                        exp = ("out", progen.render(ev(e)) + "\n")
                    except progen.AbraError as ex:
                        exp = ("err", ex.kind)
                    except progen.Unsupported:
                        continue
                    cases.append(Case("spelled %s" % txt, PRE + "println(%s)" % txt, exp, DECLS))
    # float sub-grammar (+ - * / ^, unary minus, negative literals): minimal vs full parentheses
    nf = 1500 if ctx.quick else 25000
    tries = 0
    fcount = 0
    while fcount < nf and tries < nf * 6:
        tries += 1
        e = fgen(r, r.choice([1, 2, 2, 3, 3]))
        c = float_case(e)
        if c is None or c.key in seen:
            continue
        seen.add(c.key)
        cases.append(c)
        fcount += 1
    fops = ["+", "-", "*", "/", "^"]
    fleaf = [(("var", "p"), ("var", "q"), ("var", "w")), (("lit", 3.0), ("lit", 2.0), ("lit", 2.0)),
             (("neg", ("lit", 2.0)), ("lit", 3.0), ("lit", 2.0)), (("lit", 3.0), ("neg", ("lit", 2.0)), ("lit", 2.0)),
             (("neg", ("var", "w")), ("var", "p"), ("var", "w"))]
    for o1 in fops:
        for o2 in fops:
            for (x, y, z) in fleaf:
                for e in (("bin", o2, ("bin", o1, x, y), z), ("bin", o1, x, ("bin", o2, y, z)),
                          ("neg", ("bin", o1, x[1] if x[0] == "neg" else x, y)), ("bin", o2, ("neg", ("bin", o1, x[1] if x[0] == "neg" else x, y)), z)):
                    c = float_case(e)
                    if c is not None and c.key not in seen:
                        seen.add(c.key)
                        cases.append(c)
                        fcount += 1
    nruns, observed, failures = run_cases(ctx, "c31", cases, lambda c: "C31 " + c.key, per_prog=150)
    ctx.coverage(
        evaluations=nruns,
        distinct_nontrivial=len(observed),
        float_cases=fcount,
        rule="float cases: the minimally parenthesised spelling of a float tree (+ - * / ^, unary minus, negative literals) must equal "
             "its fully parenthesised spelling; case = one expression tree over the int/bool/string sub-grammars (all 15 binary operators, unary minus, not; leaves "
             "variables, literals, negative literals) printed with the minimal parentheses the documented table requires; "
             "distinct = distinct printed expressions whose value/error was compared with the tree's reference value",
        samples=[{"case": c.key, "expected": c.expect} for c in (cases[0], cases[len(cases) // 2], cases[-1])],
        failures=failures[:20],
    )
    ctx.need(len(observed) >= 0.98 * len({c.key for c in cases}), "only %d of %d cases observed" % (len(observed), len(cases)))


def replay(ctx, rep):
    res = ctx.ex.run_alone(rep["job"])
    print(__import__("json").dumps(res)[:3000])
