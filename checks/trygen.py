"""Generator of programs exercising `?` and `!` in every position (C23), built on progen's AST so
that progen's printer and reference interpreter are the oracle.

Base functions turn an int into option/result values (success or failure depending on the
argument, incl. void payloads). Generated functions f_k return option<int>, result<int, string>,
option<string>, result<void, string> or option<void>; their bodies are marker-separated statements
whose expressions apply `?` / `!` as a statement, as left/right/both operands, in each argument
position, on nested calls, inside loop bodies, match arms, if branches and blocks used as
operands. The main program calls every f_k on success and failure inputs and prints the results;
markers make "the rest of the body does not run" observable."""
from checks.progen import INT, BOOL, STR, VOID

OPT_I, OPT_S, OPT_V = ("option", INT), ("option", STR), ("option", VOID)
RES_I, RES_V, RES_S = ("result", INT, STR), ("result", VOID, STR), ("result", STR, STR)


def lit(v):
    if isinstance(v, bool):
        return ("lit", BOOL, v)
    if isinstance(v, int):
        return ("lit", INT, v)
    if v is None:
        return ("lit", VOID, None)
    return ("lit", STR, v)


def var(t, n):
    return ("var", t, n)


def binop(t, op, a, b):
    return ("bin", t, op, a, b)


def typed_val(ty, variant, args, tmp):
    """option/result constructor with a type context (annotated let inside a block)"""
    enum = "option" if ty[0] == "option" else "result"
    return ("block", ty, [("let", tmp, ty, ("variant", ty, enum, variant, args), False, True)], ("var", ty, tmp))


def base_funcs():
    """fixed helper functions: name -> func dict"""
    fs = []
    n = [0]

    def tmp():
        n[0] += 1
        return "tb%d" % n[0]

    def fn(name, ret, cond, ok_args, fail_variant, fail_args):
        x = var(INT, "x")
        okv = "some" if ret[0] == "option" else "ok"
        body = ("block", ret, [("print", lit("<%s>" % name), False)],
                ("if", ret, cond(x),
                 ("block", ret, [], typed_val(ret, fail_variant, fail_args(x), tmp())),
                 ("block", ret, [], typed_val(ret, okv, ok_args(x), tmp()))))
        fs.append({"name": name, "params": [("x", INT)], "ret": ret, "body": body})

    # fails on multiples of 3
    fn("opt_i", OPT_I, lambda x: binop(BOOL, "==", binop(INT, "%", x, lit(3)), lit(0)), lambda x: [binop(INT, "*", x, lit(2))], "none", lambda x: [])
    # fails on negative numbers
    fn("res_i", RES_I, lambda x: binop(BOOL, "<", x, lit(0)), lambda x: [binop(INT, "+", x, lit(1))], "err", lambda x: [binop(STR, "..", lit("neg"), x)])
    fn("res_v", RES_V, lambda x: binop(BOOL, ">", x, lit(5)), lambda x: [lit(None)], "err", lambda x: [binop(STR, "..", lit("big"), x)])
    fn("opt_v", OPT_V, lambda x: binop(BOOL, "==", x, lit(4)), lambda x: [lit(None)], "none", lambda x: [])
    fn("opt_s", OPT_S, lambda x: binop(BOOL, "==", binop(INT, "%", x, lit(2)), lit(1)), lambda x: [binop(STR, "..", lit("s"), x)], "none", lambda x: [])
    fs.append({"name": "add3", "params": [("a", INT), ("b", INT), ("c", INT)], "ret": INT,
               "body": ("block", INT, [], binop(INT, "+", binop(INT, "+", binop(INT, "*", var(INT, "a"), lit(100)), binop(INT, "*", var(INT, "b"), lit(10))), var(INT, "c")))})
    return fs


class TryGen:
    def __init__(self, rng):
        self.r = rng
        self.n = 0
        self.features = set()

    def fresh(self, p):
        self.n += 1
        return "%s%d" % (p, self.n)

    # ---- int expressions inside a function whose return type is `ret`
    def qcall_int(self, ret, ints, d):
        """int-valued expression that applies ? or ! to a call"""
        r = self.r
        arg = self.int_expr(ret, ints, d - 1)
        cands = []
        if ret is not None and ret[0] == "option":
            cands.append(("try", "opt_i", OPT_I))
        if ret is not None and ret[0] == "result":
            cands.append(("try", "res_i", RES_I))
        cands.append(("unwrap", "opt_i", OPT_I))
        cands.append(("unwrap", "res_i", RES_I))
        if len(cands) > 2 and r.chance(70):
            cands = cands[:1]
        kind, fname, fty = r.choice(cands)
        self.features.add(kind + "-" + fty[0])
        return (kind, INT, ("call", fty, fname, [arg]))

    def int_expr(self, ret, ints, d):
        r = self.r
        if d <= 0:
            return var(INT, r.choice(ints)) if ints and r.chance(70) else lit(r.range(0, 7))
        k = r.below(100)
        if k < 22:
            self.features.add("pos-operand")
            side = r.below(3)
            q = self.qcall_int(ret, ints, d)
            o = self.int_expr(ret, ints, d - 1)
            op = r.choice(["+", "-", "*"])
            if side == 0:
                return binop(INT, op, q, o)
            if side == 1:
                return binop(INT, op, o, q)
            self.features.add("pos-both-operands")
            return binop(INT, op, q, self.qcall_int(ret, ints, d - 1))
        if k < 40:
            self.features.add("pos-argument")
            args = [self.int_expr(ret, ints, d - 2) for _ in range(3)]
            args[r.below(3)] = self.qcall_int(ret, ints, d - 1)
            if r.chance(30):
                args[r.below(3)] = self.qcall_int(ret, ints, d - 1)
            return ("call", INT, "add3", args)
        if k < 50:
            self.features.add("pos-nested-call")
            inner = self.qcall_int(ret, ints, d - 1)
            kind = "try" if (ret is not None and r.chance(60)) else "unwrap"
            fname, fty = ("opt_i", OPT_I) if (ret is None or ret[0] == "option") else ("res_i", RES_I)
            if kind == "unwrap":
                fname, fty = r.choice([("opt_i", OPT_I), ("res_i", RES_I)])
            return (kind, INT, ("call", fty, fname, [binop(INT, "+", inner, lit(1))]))
        if k < 60:
            self.features.add("pos-match-arm")
            return ("match", INT, self.int_expr(ret, ints, d - 2),
                    [(("plit", 0), self.qcall_int(ret, ints, d - 1)), (("plit", 2), self.int_expr(ret, ints, d - 2)), (("pwild",), self.qcall_int(ret, ints, d - 1))])
        if k < 70:
            self.features.add("pos-if-branch")
            return ("if", INT, binop(BOOL, "<", self.int_expr(ret, ints, d - 2), lit(3)),
                    ("block", INT, [], self.qcall_int(ret, ints, d - 1)), ("block", INT, [], self.int_expr(ret, ints, d - 1)))
        if k < 82:
            # block in operand position whose statement applies ? to a void-payload call
            self.features.add("pos-block-operand-void")
            v = self.void_q(ret, ints, d - 1)
            return ("block", INT, [("expr", v)], self.int_expr(ret, ints, d - 2))
        if k < 90:
            return binop(INT, r.choice(["+", "-", "*"]), self.int_expr(ret, ints, d - 1), self.int_expr(ret, ints, d - 1))
        return var(INT, r.choice(ints)) if ints else lit(r.range(0, 7))

    def void_q(self, ret, ints, d):
        """void-valued expression: ? or ! applied to a call with a void payload"""
        r = self.r
        arg = self.int_expr(ret, ints, d - 1)
        cands = [("unwrap", "opt_v", OPT_V), ("unwrap", "res_v", RES_V)]
        if ret is not None and ret[0] == "option":
            cands = [("try", "opt_v", OPT_V)] * 3 + cands
        if ret is not None and ret[0] == "result":
            cands = [("try", "res_v", RES_V)] * 3 + cands
        kind, fname, fty = r.choice(cands)
        self.features.add(kind + "-void-payload")
        return (kind, VOID, ("call", fty, fname, [arg]))

    def str_q(self, ret, ints, d):
        r = self.r
        arg = self.int_expr(ret, ints, d - 1)
        kind = "try" if (ret is not None and ret[0] == "option" and r.chance(70)) else "unwrap"
        self.features.add(kind + "-string")
        return (kind, STR, ("call", OPT_S, "opt_s", [arg]))

    def body_stmts(self, ret, ints, nst, d):
        """marker-separated statements; returns list"""
        r = self.r
        out = []
        for i in range(nst):
            out.append(("print", lit("@%d" % i), False))
            k = r.below(100)
            if k < 30:
                x = self.fresh("y")
                out.append(("let", x, INT, self.int_expr(ret, ints, d), r.chance(30), False))
                ints = ints + [x]
                out.append(("print", var(INT, x), False))
            elif k < 45:
                self.features.add("pos-statement")
                out.append(("expr", self.void_q(ret, ints, d)))
            elif k < 60:
                self.features.add("pos-loop-body")
                acc = self.fresh("acc")
                i_ = self.fresh("i")
                out.append(("let", acc, INT, lit(0), True, False))
                body = [("assign", ("var", INT, acc), "=", binop(INT, "+", var(INT, acc), self.int_expr(ret, ints + [i_], d - 1)))]
                if r.chance(40):
                    body.insert(0, ("expr", self.void_q(ret, ints + [i_], d - 1)))
                if r.chance(50):
                    out.append(("for", ("pbind", i_), "int", lit(r.range(1, 4)), body))
                else:
                    out.append(("for", ("pbind", i_), "array", ("array", ("array", INT), [lit(r.range(0, 6)) for _ in range(r.range(1, 3))]), body))
                ints = ints + [acc]
                out.append(("print", var(INT, acc), False))
            elif k < 70:
                self.features.add("pos-while-body")
                w = self.fresh("w")
                acc = self.fresh("acc")
                out.append(("let", w, INT, lit(0), True, False))
                out.append(("let", acc, INT, lit(0), True, False))
                body = [("assign", ("var", INT, w), "+=", lit(1)),
                        ("assign", ("var", INT, acc), "=", binop(INT, "+", var(INT, acc), self.int_expr(ret, ints + [w], d - 1)))]
                out.append(("while", binop(BOOL, "<", var(INT, w), lit(r.range(1, 3))), body))
                ints = ints + [acc]
            elif k < 80:
                s = self.fresh("s")
                out.append(("let", s, STR, self.str_q(ret, ints, d), False, False))
                out.append(("print", var(STR, s), False))
            elif k < 90:
                self.features.add("pos-print-arg")
                out.append(("print", self.int_expr(ret, ints, d), False))
            else:
                # if statement with ? in the condition
                self.features.add("pos-condition")
                out.append(("expr", ("if", VOID, binop(BOOL, ">", self.qcall_int(ret, ints, d - 1), lit(4)),
                                     ("block", VOID, [("print", lit("T"), False)], None), ("block", VOID, [("print", lit("F"), False)], None))))
        return out, ints

    def gen_func(self, idx):
        r = self.r
        ret = r.choice([OPT_I, OPT_I, RES_I, RES_I, OPT_S, RES_V, OPT_V])
        params = [("a", INT), ("b", INT)]
        # void-typed parameters occupy no stack slot: the early exit of `?` must still find the
        # caller's slot
        if r.chance(45):
            for _ in range(r.range(1, 2)):
                params.insert(r.range(0, len(params)), ("u%d" % len(params), VOID))
            self.features.add("void-parameter")
        stmts, ints = self.body_stmts(ret, ["a", "b"], r.range(2, 4), 3)
        name = "f%d" % idx
        t = self.fresh("tr")
        if ret == OPT_I:
            final = typed_val(ret, "some", [self.int_expr(ret, ints, 2)], t)
        elif ret == RES_I:
            final = typed_val(ret, "ok", [self.int_expr(ret, ints, 2)], t)
        elif ret == OPT_S:
            final = typed_val(ret, "some", [binop(STR, "..", lit("r"), self.int_expr(ret, ints, 2))], t)
        elif ret == RES_V:
            final = typed_val(ret, "ok", [lit(None)], t)
        else:
            final = typed_val(ret, "some", [lit(None)], t)
        stmts.append(("print", lit("@end"), False))
        body = ("block", ret, stmts, final)
        return {"name": name, "params": params, "ret": ret, "body": body}

    def gen(self):
        r = self.r
        funcs = base_funcs()
        mine = [self.gen_func(i) for i in range(r.range(1, 3))]
        funcs += mine
        main = []
        inputs = [(1, 2), (3, 1), (2, -1), (4, 4), (7, 5), (0, 0), (5, 6), (-2, 8)]
        r.shuffle(inputs)
        for f in mine:
            for (a, b) in inputs[:r.range(3, 6)]:
                main.append(("print", lit("[%s %d %d]" % (f["name"], a, b)), False))
                vals = {"a": lit(a), "b": lit(b)}
                main.append(("print", ("call", f["ret"], f["name"], [vals.get(pn, lit(None)) for pn, _pt in f["params"]]), True))
        # top-level `!` (stops the program with a panic when it fails)
        if r.chance(60):
            g = ["g"]
            main.insert(0, ("let", "g", INT, lit(r.range(0, 7)), False, False))
            stmts, _ = self.body_stmts(None, g, r.range(1, 2), 2)
            main += stmts
        main.append(("print", lit("done"), True))
        return {"structs": {}, "enums": {}, "funcs": funcs, "main": main, "final_ty": None, "features": sorted(self.features), "hosts": []}
