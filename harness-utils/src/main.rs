// utils-san: runtime monitors for utils::IdSet (C37) and utils::Arena (C38).
//
//   utils-san idset  exhaustive <max_len> <elem: string|u64|unit>
//   utils-san idset  random <seed> <count> <max_len> <elem>
//   utils-san arena  exhaustive <max_len>
//   utils-san arena  random <seed> <count> <max_len>
//   utils-san idset|arena replay <elem|-> <op,op,...> [cap]
//
// Every sequence is announced ("SEQ <ops>") before it runs, so that a fatal signal (ASan, Miri,
// abort) is attributable. A model violation is printed as "VIOL <what> | SEQ <ops>". The last line
// is a JSON summary. The same binary runs natively, under AddressSanitizer and under Miri.

use std::collections::HashMap;
use std::io::Write;
use utils::arena::Arena;
use utils::id_set::IdSet;

struct Rng(u64);
impl Rng {
    fn next(&mut self) -> u64 {
        self.0 = self.0.wrapping_add(0x9E37_79B9_7F4A_7C15);
        let mut z = self.0;
        z = (z ^ (z >> 30)).wrapping_mul(0xBF58_476D_1CE4_E5B9);
        z = (z ^ (z >> 27)).wrapping_mul(0x94D0_49BB_1331_11EB);
        z ^ (z >> 31)
    }
    fn below(&mut self, n: u64) -> u64 {
        self.next() % n
    }
}

// ------------------------------------------------------------------------------------------
// IdSet

trait Elem: std::hash::Hash + Eq + Clone + Default + std::fmt::Debug {
    fn make(n: u64) -> Self;
}
impl Elem for String {
    fn make(n: u64) -> Self {
        format!("value-{n}-{}", "x".repeat((n % 40) as usize))
    }
}
impl Elem for u64 {
    fn make(n: u64) -> Self {
        n.wrapping_mul(0x9E37_79B9)
    }
}
impl Elem for () {
    fn make(_n: u64) -> Self {}
}

const IDSET_OPS: &[&str] = &[
    "new", "dup", "lookup", "index", "iter", "clear", "clone_drop", "clone_clear", "clone_keep", "into_iter", "default",
];

struct IdModel<T> {
    order: Vec<T>,
    ids: HashMap<T, u32>,
}
impl<T: Elem> IdModel<T> {
    fn new() -> Self {
        IdModel { order: vec![], ids: HashMap::new() }
    }
    fn insert(&mut self, v: T) -> u32 {
        if let Some(id) = self.ids.get(&v) {
            return *id;
        }
        let id = self.order.len() as u32;
        self.ids.insert(v.clone(), id);
        self.order.push(v);
        id
    }
    fn clear(&mut self) {
        self.order.clear();
        self.ids.clear();
    }
}

fn idset_agree<T: Elem>(set: &IdSet<T>, m: &IdModel<T>, what: &str, viol: &mut Vec<String>) {
    if set.len() != m.order.len() {
        viol.push(format!("{what}: len {} but the model holds {}", set.len(), m.order.len()));
    }
    if set.is_empty() != m.order.is_empty() {
        viol.push(format!("{what}: is_empty {}", set.is_empty()));
    }
    for (i, v) in m.order.iter().enumerate() {
        match set.try_get_id(v) {
            Some(id) if id == i as u32 => {}
            other => viol.push(format!("{what}: try_get_id of element {i} gives {other:?}")),
        }
        if i < set.len() && &set[i as u32] != v {
            viol.push(format!("{what}: index {i} gives {:?}, the model has {:?}", &set[i as u32], v));
        }
        if !set.contains(v) {
            viol.push(format!("{what}: contains() is false for element {i}"));
        }
    }
    let got: Vec<&T> = set.iter().collect();
    let want: Vec<&T> = m.order.iter().collect();
    if got != want {
        viol.push(format!("{what}: iteration yields {} elements {:?}.., the model has {} in insertion order", got.len(), got.iter().take(3).collect::<Vec<_>>(), want.len()));
    }
    let got2: Vec<&T> = set.into_iter().collect();
    if got2 != want {
        viol.push(format!("{what}: &set into_iter differs from the model"));
    }
}

fn run_idset<T: Elem>(ops: &[usize], viol: &mut Vec<String>) -> usize {
    let mut set: IdSet<T> = IdSet::new();
    let mut m: IdModel<T> = IdModel::new();
    let mut kept: Vec<(IdSet<T>, Vec<T>)> = vec![];
    let mut fresh: u64 = 0;
    let mut nops = 0;
    for (step, &op) in ops.iter().enumerate() {
        nops += 1;
        let what = format!("step {step} {}", IDSET_OPS[op]);
        match IDSET_OPS[op] {
            "new" => {
                fresh += 1;
                let v = T::make(fresh);
                let want = m.insert(v.clone());
                let got = set.insert(v);
                if got != want {
                    viol.push(format!("{what}: insert returned id {got}, the model assigns {want}"));
                }
            }
            "dup" => {
                if !m.order.is_empty() {
                    let v = m.order[(step * 7) % m.order.len()].clone();
                    let want = m.insert(v.clone());
                    let got = set.insert(v);
                    if got != want {
                        viol.push(format!("{what}: duplicate insert returned id {got}, the model says {want}"));
                    }
                }
            }
            "lookup" => {
                let absent = T::make(1_000_000 + step as u64);
                if !m.ids.contains_key(&absent) && (set.try_get_id(&absent).is_some() || set.contains(&absent)) {
                    viol.push(format!("{what}: an absent value was found"));
                }
            }
            "index" => {
                for i in 0..m.order.len() {
                    if set[i as u32] != m.order[i] {
                        viol.push(format!("{what}: index {i} differs"));
                    }
                }
            }
            "iter" => {}
            "clear" => {
                set.clear();
                m.clear();
            }
            "clone_drop" => {
                // continue on the clone; the original is dropped
                let c = set.clone();
                drop(std::mem::replace(&mut set, c));
            }
            "clone_clear" => {
                // continue on the clone; the original is cleared, refilled with other values, then dropped
                let c = set.clone();
                let mut orig = std::mem::replace(&mut set, c);
                orig.clear();
                for k in 0..4u64 {
                    orig.insert(T::make(2_000_000 + k));
                }
                drop(orig);
            }
            "clone_keep" => {
                // keep a clone aside; it must stay equal to the model as of now while the original moves on
                kept.push((set.clone(), m.order.clone()));
            }
            "into_iter" => {
                let old = std::mem::replace(&mut set, IdSet::new());
                let got: Vec<T> = old.into_iter().collect();
                if got != m.order {
                    viol.push(format!("{what}: consuming iteration differs from the model"));
                }
                m.clear();
            }
            "default" => {
                set = IdSet::default();
                m.clear();
            }
            _ => unreachable!(),
        }
        idset_agree(&set, &m, &what, viol);
        for (k, (c, want)) in kept.iter().enumerate() {
            let got: Vec<&T> = c.iter().collect();
            if got != want.iter().collect::<Vec<_>>() {
                viol.push(format!("{what}: clone #{k} taken earlier no longer matches its snapshot"));
            }
            for (i, v) in want.iter().enumerate() {
                if c.try_get_id(v) != Some(i as u32) || &c[i as u32] != v {
                    viol.push(format!("{what}: clone #{k}: element {i} lookup differs"));
                    break;
                }
            }
        }
        if viol.len() > 5 {
            break;
        }
    }
    // the kept clones outlive the original
    drop(set);
    for (k, (c, want)) in kept.iter().enumerate() {
        let got: Vec<&T> = c.iter().collect();
        if got != want.iter().collect::<Vec<_>>() {
            viol.push(format!("end: clone #{k} differs from its snapshot after the original was dropped"));
        }
        for (i, v) in want.iter().enumerate() {
            if c.try_get_id(v) != Some(i as u32) || &c[i as u32] != v {
                viol.push(format!("end: clone #{k}: element {i} lookup differs after the original was dropped"));
                break;
            }
        }
    }
    nops
}

fn idset_dispatch(elem: &str, ops: &[usize], viol: &mut Vec<String>) -> usize {
    match elem {
        "string" => run_idset::<String>(ops, viol),
        "u64" => run_idset::<u64>(ops, viol),
        "unit" => run_idset::<()>(ops, viol),
        _ => panic!("unknown element type"),
    }
}

// ------------------------------------------------------------------------------------------
// Arena

#[derive(Clone, Copy, PartialEq, Debug)]
#[repr(align(32))]
struct A32([u8; 32]);
#[derive(Clone, Copy, PartialEq, Debug)]
#[repr(align(64))]
struct A64([u8; 64]);
#[derive(Clone, Copy, PartialEq, Debug)]
#[repr(align(16))]
struct A16x3([u8; 48]);

const ARENA_OPS: &[&str] = &[
    "u8", "u16", "u32", "u64", "u128", "b3", "b24", "b100", "b4096", "a16", "a32", "a64", "zst", "w64", "b9000", "string", "b20000",
];

struct Live<'a> {
    addr: usize,
    size: usize,
    check: Box<dyn Fn() -> bool + 'a>,
    name: &'static str,
}

fn fill<const N: usize>(k: u64) -> [u8; N] {
    let mut a = [0u8; N];
    for (i, b) in a.iter_mut().enumerate() {
        *b = (k as usize * 31 + i * 7 + 1) as u8;
    }
    a
}

fn alloc_checked<'a, T: PartialEq + Clone + 'a>(
    arena: &'a Arena,
    v: T,
    name: &'static str,
    live: &mut Vec<Live<'a>>,
    what: &str,
    viol: &mut Vec<String>,
) {
    let expected = v.clone();
    let r = arena.alloc(v);
    let addr = &*r as *const T as usize;
    let size = std::mem::size_of::<T>();
    let align = std::mem::align_of::<T>();
    if addr % align != 0 {
        viol.push(format!("{what}: {name} (size {size}, align {align}) placed at address {addr:#x}, misaligned by {}", addr % align));
    }
    if size > 0 {
        for l in live.iter() {
            if l.size > 0 && addr < l.addr + l.size && l.addr < addr + size {
                viol.push(format!("{what}: {name} at [{addr:#x},{:#x}) overlaps live {} at [{:#x},{:#x})", addr + size, l.name, l.addr, l.addr + l.size));
                break;
            }
        }
    }
    live.push(Live { addr, size, name, check: Box::new(move || *r == expected) });
}

fn run_arena(cap: usize, ops: &[usize], viol: &mut Vec<String>) -> usize {
    let arena = if cap == usize::MAX { Arena::new() } else { Arena::with_capacity(cap) };
    let mut live: Vec<Live> = vec![];
    let mut n = 0;
    for (step, &op) in ops.iter().enumerate() {
        n += 1;
        let k = step as u64 + 1;
        let what = format!("step {step} {}", ARENA_OPS[op]);
        let w = &what;
        match ARENA_OPS[op] {
            "u8" => alloc_checked(&arena, k as u8, "u8", &mut live, w, viol),
            "u16" => alloc_checked(&arena, (k * 257) as u16, "u16", &mut live, w, viol),
            "u32" => alloc_checked(&arena, (k * 65537) as u32, "u32", &mut live, w, viol),
            "u64" => alloc_checked(&arena, k.wrapping_mul(0x0101_0101_0101_0101), "u64", &mut live, w, viol),
            "u128" => alloc_checked(&arena, (k as u128).wrapping_mul(0x0101_0101_0101_0101_0101_0101_0101_0101), "u128", &mut live, w, viol),
            "b3" => alloc_checked(&arena, fill::<3>(k), "[u8;3]", &mut live, w, viol),
            "b24" => alloc_checked(&arena, fill::<24>(k), "[u8;24]", &mut live, w, viol),
            "b100" => alloc_checked(&arena, fill::<100>(k), "[u8;100]", &mut live, w, viol),
            "b4096" => alloc_checked(&arena, fill::<4096>(k), "[u8;4096]", &mut live, w, viol),
            "b9000" => alloc_checked(&arena, fill::<9000>(k), "[u8;9000]", &mut live, w, viol),
            "b20000" => alloc_checked(&arena, fill::<20000>(k), "[u8;20000]", &mut live, w, viol),
            "a16" => alloc_checked(&arena, A16x3(fill::<48>(k)), "align16x48", &mut live, w, viol),
            "a32" => alloc_checked(&arena, A32(fill::<32>(k)), "align32", &mut live, w, viol),
            "a64" => alloc_checked(&arena, A64(fill::<64>(k)), "align64", &mut live, w, viol),
            "zst" => alloc_checked(&arena, (), "()", &mut live, w, viol),
            "w64" => alloc_checked(&arena, [k; 64], "[u64;64]", &mut live, w, viol),
            "string" => alloc_checked(&arena, k.wrapping_mul(0x1234_5678_9abc_def1) as i64, "i64", &mut live, w, viol),
            _ => unreachable!(),
        }
        for l in live.iter() {
            if !(l.check)() {
                viol.push(format!("{what}: an earlier {} at {:#x} no longer reads back its value", l.name, l.addr));
                break;
            }
        }
        if viol.len() > 5 {
            break;
        }
    }
    n
}

// ------------------------------------------------------------------------------------------

fn show_ops(names: &[&str], ops: &[usize]) -> String {
    ops.iter().map(|&o| names[o]).collect::<Vec<_>>().join(",")
}

fn parse_ops(names: &[&str], s: &str) -> Vec<usize> {
    s.split(',').filter(|x| !x.is_empty()).map(|x| names.iter().position(|n| *n == x).expect("unknown op")).collect()
}

fn main() {
    let a: Vec<String> = std::env::args().collect();
    let target = a.get(1).map(|s| s.as_str()).unwrap_or("");
    let mode = a.get(2).map(|s| s.as_str()).unwrap_or("");
    let out = std::io::stdout();
    let mut total_seqs = 0u64;
    let mut total_ops = 0u64;
    let mut nviol = 0u64;
    let mut run_one = |elem: &str, cap: usize, ops: &[usize]| {
        let names = if target == "idset" { IDSET_OPS } else { ARENA_OPS };
        let label = if target == "idset" { format!("{elem} {}", show_ops(names, ops)) } else { format!("cap={} {}", cap as i64, show_ops(names, ops)) };
        {
            let mut o = out.lock();
            let _ = writeln!(o, "SEQ {label}");
            let _ = o.flush();
        }
        let mut viol = vec![];
        let n = if target == "idset" { idset_dispatch(elem, ops, &mut viol) } else { run_arena(cap, ops, &mut viol) };
        total_seqs += 1;
        total_ops += n as u64;
        for v in viol.iter().take(3) {
            nviol += 1;
            println!("VIOL {v} | SEQ {label}");
        }
    };
    let caps = [usize::MAX, 0, 1, 16, 20, 1024];
    match mode {
        "exhaustive" => {
            let max_len: usize = a[3].parse().unwrap();
            let names = if target == "idset" { IDSET_OPS } else { ARENA_OPS };
            let elem = a.get(4).cloned().unwrap_or_else(|| "string".into());
            // optional restriction of the operation alphabet (Miri: leave the big arrays out)
            let alphabet: Vec<usize> = match a.get(5) {
                Some(list) => parse_ops(names, list),
                None => (0..names.len()).collect(),
            };
            let nops = alphabet.len();
            for len in 1..=max_len {
                let mut idx = vec![0usize; len];
                loop {
                    let seq: Vec<usize> = idx.iter().map(|&i| alphabet[i]).collect();
                    if target == "idset" {
                        run_one(&elem, 0, &seq);
                    } else {
                        for c in caps {
                            run_one("", c, &seq);
                        }
                    }
                    let mut p = len;
                    loop {
                        if p == 0 {
                            break;
                        }
                        p -= 1;
                        idx[p] += 1;
                        if idx[p] < nops {
                            break;
                        }
                        idx[p] = 0;
                        if p == 0 {
                            p = usize::MAX;
                            break;
                        }
                    }
                    if p == usize::MAX {
                        break;
                    }
                }
            }
        }
        "random" => {
            let seed: u64 = a[3].parse().unwrap();
            let count: u64 = a[4].parse().unwrap();
            let max_len: u64 = a[5].parse().unwrap();
            let elem = a.get(6).cloned().unwrap_or_else(|| "string".into());
            let mut r = Rng(seed);
            let nops = if target == "idset" { IDSET_OPS.len() } else { ARENA_OPS.len() } as u64;
            for _ in 0..count {
                let len = 1 + r.below(max_len);
                // insertion-heavy for the id set so that buffers grow
                let ops: Vec<usize> = (0..len)
                    .map(|_| if target == "idset" && r.below(100) < 45 { 0 } else { r.below(nops) as usize })
                    .collect();
                let cap = caps[r.below(caps.len() as u64) as usize];
                run_one(&elem, cap, &ops);
            }
        }
        "replay" => {
            let elem = a[3].clone();
            let names = if target == "idset" { IDSET_OPS } else { ARENA_OPS };
            let ops = parse_ops(names, &a[4]);
            let cap: i64 = a.get(5).and_then(|s| s.parse().ok()).unwrap_or(-1);
            run_one(&elem, if cap < 0 { usize::MAX } else { cap as usize }, &ops);
        }
        _ => {
            eprintln!("usage: utils-san idset|arena exhaustive|random|replay ...");
            std::process::exit(2);
        }
    }
    println!("{{\"sequences\":{total_seqs},\"ops\":{total_ops},\"violations\":{nviol}}}");
}
