#!/usr/bin/env python3
"""Regenerates MANIFEST.json from the table below (keeps it schema-valid at all times)."""
import json, os, subprocess
ROOT = os.path.dirname(os.path.abspath(__file__))
props = [json.loads(l) for l in open(os.path.join(ROOT, "properties.jsonl"))]

# id -> (level, technique, level text, level note)
CHECKS = {}
def chk(i, level, technique, text, note, ref):
    CHECKS[i] = dict(level=level, technique=technique, text=text, note=note, ref=ref)

exec(open(os.path.join(ROOT, "manifest_table.py")).read())

NA = {}
hooks = subprocess.run(["git", "-C", "/repo", "log", "--format=%H %s"], capture_output=True, text=True).stdout.splitlines()
hook_commits = [l.split()[0] for l in hooks if " verif hook" in l]
checks = []
for p in props:
    i = p["id"]
    if i not in CHECKS:
        NA[i] = "check not built yet (work in progress)"
        continue
    c = CHECKS[i]
    checks.append({
        "property_id": i,
        "quick_cmd": "./vcheck %s --tier quick" % i,
        "thorough_cmd": "./vcheck %s --tier thorough" % i,
        "evidence_file": "/verif/evidence/%s.json" % i,
        "replay_cmd_template": "./vcheck %s --replay {path}" % i,
        "engine": "abra-verif executor + checks/%s.py" % i.lower(),
        "level_claimed": {"category": c["level"], "text": c["text"], "design_ref": c["ref"]},
        "level_note": c["note"],
        "technique": c["technique"],
    })
m = {
    "version": 1,
    "setup_cmd": "cd /verif/harness && CARGO_NET_OFFLINE=true cargo build --release --offline",
    "hooks": {
        "guard": "cargo feature `verif` of abra_core (off by default)",
        "enable": "the harness crate depends on abra_core with features=[\"verif\"] by path, so every check rebuilds /repo's working tree with the hooks on",
        "baseline_off_cmd": "/verif/baseline_off.sh",
        "source_commits": hook_commits,
        "add_only": True,
    },
    "engines": [
        {"name": "abra-verif", "path": "/verif/harness", "serves_properties": sorted(CHECKS),
         "kind_free_text": "Rust executor: runs jobs (sources + budget plan + GC plan + host script) against the real compiler/VM under catch_unwind with the verif hooks; observation only"},
        {"name": "vcheck", "path": "/verif/vcheck", "serves_properties": sorted(CHECKS),
         "kind_free_text": "python driver: generators, reference oracles, confirmation re-run in a fresh process, known-findings matching, evidence"},
    ],
    "checks": checks,
    "not_applicable": [{"property_id": k, "reason": v} for k, v in sorted(NA.items())],
    "notes": "Runtime monitoring only: every verdict comes from observing executions of the real code. Exit 3 = inconclusive (never a VIOLATION line).",
}
json.dump(m, open(os.path.join(ROOT, "MANIFEST.json"), "w"), indent=1)
print("checks:", len(checks), "not_applicable:", len(NA))
