// abra-verif: executor for the runtime-monitoring checks in /verif.
//
// `abra-verif exec <jobs.jsonl> <results.jsonl> <journal> [threads]`
//   runs every job (one JSON object per line) against the real abra_core built from /repo's
//   working tree with the `verif` hooks, under catch_unwind, and writes one JSON result per
//   job. The journal gets "B <id>" / "E <id>" lines so that a process abort is attributable.
//
// The oracles live in the python checks; this binary only *executes and observes*.

use abra_core::vm::verif::{self, GcPlan};
use abra_core::vm::{Runtime, RuntimeStatusKind, VmGreenThread};
use abra_core::{FileProvider, MockFileProvider, OsFileProvider};
use serde_json::{Map, Value as J, json};
use std::cell::RefCell;
use std::collections::{BTreeSet, HashMap};
use std::io::{BufRead, BufReader, Write};
use std::panic::{AssertUnwindSafe, catch_unwind};
use std::path::PathBuf;
use std::sync::atomic::{AtomicUsize, Ordering};
use std::sync::{Arc, Mutex};
use std::time::{Duration, Instant};

// Counting allocator (C07): live heap bytes / blocks of the whole process. Only meaningful for
// lifecycle jobs, which the driver runs in a single-worker process.
struct Counting;
// off unless VERIF_COUNT_ALLOC is set (16 workers hammering two shared counters slow everything down)
static COUNTING: std::sync::atomic::AtomicBool = std::sync::atomic::AtomicBool::new(false);
static LIVE_BYTES: std::sync::atomic::AtomicIsize = std::sync::atomic::AtomicIsize::new(0);
static LIVE_BLOCKS: std::sync::atomic::AtomicIsize = std::sync::atomic::AtomicIsize::new(0);
unsafe impl std::alloc::GlobalAlloc for Counting {
    unsafe fn alloc(&self, l: std::alloc::Layout) -> *mut u8 {
        let p = unsafe { std::alloc::System.alloc(l) };
        if !p.is_null() && COUNTING.load(Ordering::Relaxed) {
            LIVE_BYTES.fetch_add(l.size() as isize, Ordering::Relaxed);
            LIVE_BLOCKS.fetch_add(1, Ordering::Relaxed);
        }
        p
    }
    unsafe fn dealloc(&self, p: *mut u8, l: std::alloc::Layout) {
        unsafe { std::alloc::System.dealloc(p, l) };
        if COUNTING.load(Ordering::Relaxed) {
            LIVE_BYTES.fetch_sub(l.size() as isize, Ordering::Relaxed);
            LIVE_BLOCKS.fetch_sub(1, Ordering::Relaxed);
        }
    }
    unsafe fn realloc(&self, p: *mut u8, l: std::alloc::Layout, new_size: usize) -> *mut u8 {
        let q = unsafe { std::alloc::System.realloc(p, l, new_size) };
        if !q.is_null() && COUNTING.load(Ordering::Relaxed) {
            LIVE_BYTES.fetch_add(new_size as isize - l.size() as isize, Ordering::Relaxed);
        }
        q
    }
}
#[global_allocator]
static GLOBAL: Counting = Counting;

thread_local! {
    static LAST_PANIC: RefCell<Option<(String, String, String)>> = const { RefCell::new(None) };
}

/// innermost frame of the panicking call stack that belongs to the code under test, as
/// "<file>:<function>" (robust to line shifts)
fn first_repo_frame() -> String {
    let bt = std::backtrace::Backtrace::force_capture().to_string();
    if std::env::var("VERIF_BT").is_ok() {
        eprintln!("{bt}");
    }
    let mut name = String::new();
    for line in bt.lines() {
        let l = line.trim();
        if let Some(path) = l.strip_prefix("at ") {
            if (path.starts_with("/repo/abra_core/src/") || path.starts_with("/repo/utils/src/"))
                && !path.contains("vm_verif.rs")
            {
                let file = path.split(':').next().unwrap_or("");
                let file = file.rsplit('/').next().unwrap_or("");
                let mut f = name.clone();
                if let Some(i) = f.find('<') {
                    f.truncate(i);
                }
                return format!("{file}:{f}");
            }
        } else if let Some((_, sym)) = l.split_once(": ") {
            name = sym.to_string();
        }
    }
    String::new()
}

fn install_panic_hook() {
    std::panic::set_hook(Box::new(|info| {
        let msg = if let Some(s) = info.payload().downcast_ref::<&str>() {
            s.to_string()
        } else if let Some(s) = info.payload().downcast_ref::<String>() {
            s.clone()
        } else {
            "<non-string panic>".to_string()
        };
        let loc = info
            .location()
            .map(|l| format!("{}:{}", l.file(), l.line()))
            .unwrap_or_default();
        LAST_PANIC.with(|p| {
            let mut p = p.borrow_mut();
            // keep the FIRST panic of a job (later ones are usually consequences)
            if p.is_none() {
                *p = Some((msg, loc, first_repo_frame()));
            }
        });
    }));
}

fn take_panic() -> J {
    match LAST_PANIC.with(|p| p.borrow_mut().take()) {
        Some((msg, loc, func)) => json!({"msg": msg, "loc": loc, "func": func}),
        None => json!({"msg": "<unknown>", "loc": "", "func": ""}),
    }
}

fn clear_panic() {
    LAST_PANIC.with(|p| *p.borrow_mut() = None);
}

struct Std {
    files: HashMap<PathBuf, String>,
}

fn load_std() -> Std {
    // standard modules from the working tree (modules/core/*.abra), for `use core/...`
    let mut files = HashMap::new();
    let root = PathBuf::from("/repo/modules");
    if let Ok(rd) = std::fs::read_dir(root.join("core")) {
        for e in rd.flatten() {
            let p = e.path();
            if p.extension().map(|x| x == "abra").unwrap_or(false)
                && let Ok(s) = std::fs::read_to_string(&p)
            {
                let rel = PathBuf::from("core").join(p.file_name().unwrap());
                files.insert(rel, s);
            }
        }
    }
    Std { files }
}

fn provider(job: &J, std: &Std) -> Box<dyn FileProvider> {
    if let Some(dir) = job.get("os_dir").and_then(|d| d.as_str()) {
        return OsFileProvider::new(
            PathBuf::from(dir),
            PathBuf::from("/repo/modules"),
            vec![],
        );
    }
    let mut m: HashMap<PathBuf, String> = HashMap::new();
    if job.get("std").and_then(|b| b.as_bool()).unwrap_or(false) {
        for (k, v) in &std.files {
            m.insert(k.clone(), v.clone());
        }
    }
    if let Some(files) = job.get("files").and_then(|f| f.as_object()) {
        for (k, v) in files {
            m.insert(PathBuf::from(k), v.as_str().unwrap_or("").to_string());
        }
    }
    MockFileProvider::new(m)
}

fn main_name(job: &J) -> String {
    job.get("main")
        .and_then(|m| m.as_str())
        .unwrap_or("main.abra")
        .to_string()
}

// ---------------------------------------------------------------------------------------
// budgets

struct SplitMix(u64);
impl SplitMix {
    fn next(&mut self) -> u64 {
        self.0 = self.0.wrapping_add(0x9E37_79B9_7F4A_7C15);
        let mut z = self.0;
        z = (z ^ (z >> 30)).wrapping_mul(0xBF58_476D_1CE4_E5B9);
        z = (z ^ (z >> 27)).wrapping_mul(0x94D0_49BB_1331_11EB);
        z ^ (z >> 31)
    }
}

enum Budget {
    Const(u32),
    Seq(Vec<u32>, usize),
    Rand(SplitMix, u32),
}

impl Budget {
    fn from_json(b: Option<&J>) -> Budget {
        let Some(b) = b else { return Budget::Const(u32::MAX) };
        if let Some(k) = b.get("k").and_then(|k| k.as_u64()) {
            return Budget::Const(k.min(u32::MAX as u64) as u32);
        }
        if let Some(seq) = b.get("seq").and_then(|s| s.as_array()) {
            let v: Vec<u32> = seq
                .iter()
                .map(|x| x.as_u64().unwrap_or(1).clamp(1, u32::MAX as u64) as u32)
                .collect();
            if !v.is_empty() {
                return Budget::Seq(v, 0);
            }
        }
        if let Some(r) = b.get("rand") {
            let seed = r.get("seed").and_then(|s| s.as_u64()).unwrap_or(1);
            let max = r.get("max").and_then(|s| s.as_u64()).unwrap_or(16).max(1) as u32;
            return Budget::Rand(SplitMix(seed), max);
        }
        Budget::Const(u32::MAX)
    }
    fn next(&mut self) -> u32 {
        match self {
            Budget::Const(k) => *k,
            Budget::Seq(v, i) => {
                let k = v[*i % v.len()];
                *i += 1;
                k
            }
            Budget::Rand(r, max) => 1 + (r.next() % (*max as u64)) as u32,
        }
    }
}

fn gc_plan(g: Option<&J>) -> GcPlan {
    let Some(g) = g else { return GcPlan::Default };
    let b = |k: &str, d: u64| -> usize {
        match g.get(k) {
            Some(J::String(s)) if s == "max" => usize::MAX,
            Some(v) => v.as_u64().unwrap_or(d) as usize,
            None => d as usize,
        }
    };
    match g.get("plan").and_then(|p| p.as_str()).unwrap_or("default") {
        "off" => GcPlan::Off,
        "scripted" => GcPlan::Scripted {
            start_at: g
                .get("start")
                .and_then(|s| s.as_array())
                .map(|a| a.iter().filter_map(|x| x.as_u64()).collect())
                .unwrap_or_default(),
            mark_budget: b("mark", 1),
            sweep_budget: b("sweep", 1),
        },
        "random" => GcPlan::Random {
            seed: g.get("seed").and_then(|s| s.as_u64()).unwrap_or(1),
            start_per_mille: g.get("pm").and_then(|s| s.as_u64()).unwrap_or(20) as u32,
            max_budget: b("max", 64),
        },
        _ => GcPlan::Default,
    }
}

// ---------------------------------------------------------------------------------------
// host functions

#[derive(Clone)]
struct HostSpec {
    name: String,
    args: Vec<String>,
    ret: String,
    replies: Vec<J>,
    log: bool,
}

fn host_table(job: &J) -> Vec<HostSpec> {
    let mut v = vec![
        HostSpec { name: "print_string".into(), args: vec!["string".into()], ret: "void".into(), replies: vec![], log: false },
        HostSpec { name: "eprint_string".into(), args: vec!["string".into()], ret: "void".into(), replies: vec![], log: false },
        HostSpec { name: "readline".into(), args: vec![], ret: "string".into(), replies: vec![json!("")], log: false },
        HostSpec { name: "get_args".into(), args: vec![], ret: "array<string>".into(), replies: vec![], log: false },
    ];
    if let Some(hs) = job.get("hosts").and_then(|h| h.as_array()) {
        for h in hs {
            v.push(HostSpec {
                name: h["name"].as_str().unwrap_or("").to_string(),
                args: h["args"]
                    .as_array()
                    .map(|a| a.iter().map(|x| x.as_str().unwrap_or("").to_string()).collect())
                    .unwrap_or_default(),
                ret: h["ret"].as_str().unwrap_or("void").to_string(),
                replies: h["replies"].as_array().cloned().unwrap_or_default(),
                log: h.get("log").and_then(|b| b.as_bool()).unwrap_or(true),
            });
        }
    }
    // the compiler numbers host functions by sorted name
    v.sort_by(|a, b| a.name.cmp(&b.name));
    v
}

fn pop_arg(t: &mut VmGreenThread, ty: &str) -> String {
    match ty {
        "int" => t.pop_int().to_string(),
        "float" => format!("f:{:016x}", t.pop_float().to_bits()),
        "bool" => {
            let v = t.pop();
            v.get_bool(t).to_string()
        }
        "string" => {
            let v = t.pop();
            format!("{:?}", v.view_string(t))
        }
        "void" => "nil".to_string(),
        _ => {
            let v = t.pop();
            verif::render_value(&v)
        }
    }
}

fn push_ret(t: &mut VmGreenThread, ty: &str, v: &J) {
    match ty {
        "int" => t.push_int(v.as_i64().unwrap_or(0)),
        "float" => {
            let f = match v {
                J::String(s) => f64::from_bits(u64::from_str_radix(s, 16).unwrap_or(0)),
                _ => v.as_f64().unwrap_or(0.0),
            };
            t.push_float(f)
        }
        "bool" => t.push_bool(v.as_bool().unwrap_or(false)),
        "string" => t.push_str(v.as_str().unwrap_or("").to_string()),
        "array<string>" => t.construct_array(0),
        _ => {}
    }
}

// ---------------------------------------------------------------------------------------
// one run

struct RunCfg<'a> {
    spec: &'a J,
    hosts: &'a [HostSpec],
}

fn exec_run(make_rt: impl FnOnce() -> Runtime, cfg: &RunCfg) -> J {
    let spec = cfg.spec;
    let mut budget = Budget::from_json(spec.get("budget"));
    let delay = spec.get("delay").and_then(|d| d.as_u64()).unwrap_or(0);
    let max_steps = spec.get("max_steps").and_then(|d| d.as_u64()).unwrap_or(2_000_000);
    let quarantine = spec.get("quarantine").and_then(|d| d.as_bool()).unwrap_or(false);
    let reach = spec.get("reach").and_then(|d| d.as_bool()).unwrap_or(false);
    let want_trace = spec.get("trace").and_then(|d| d.as_bool()).unwrap_or(false);
    let drop_after = spec.get("drop_after_calls").and_then(|d| d.as_u64());

    verif::reset();
    verif::set_quarantine(quarantine);
    verif::set_reach_check(reach);
    verif::set_gc_plan(gc_plan(spec.get("gc")));
    clear_panic();

    let mut output = String::new();
    let mut err_output = String::new();
    let mut reply_idx: HashMap<String, usize> = HashMap::new();
    let mut status = "cap";
    let mut err_text: Option<String> = None;
    let mut top: Option<String> = None;
    let mut steps: u64 = 0;
    let mut calls: u64 = 0;
    let mut over_budget = false;
    let mut host_calls: u64 = 0;
    let mut trace: Vec<J> = vec![];
    let mut peak_heap: usize = 0;
    let mut peak_objs: usize = 0;
    let mut stack_len_done: Option<usize> = None;
    let mut inv: Vec<String> = vec![];
    let mut prev_ticks: u64 = 0;
    let mut max_threads: usize = 0;

    let res = catch_unwind(AssertUnwindSafe(|| {
        let mut rt = make_rt();
        let mut delay_left = delay;
        let mut stuck = 0u32;
        loop {
            // never hand the VM more than the remaining cap in one call (a budget of u32::MAX on a
            // non-terminating program would never return)
            let remaining = max_steps.saturating_sub(steps).saturating_add(1).min(u32::MAX as u64) as u32;
            let k = budget.next().min(remaining.max(1));
            let st = rt.run_n_steps(k);
            calls += 1;
            steps += st.steps_consumed as u64;
            if st.steps_consumed > k {
                over_budget = true;
                if inv.len() < 8 {
                    inv.push(format!("over-budget: call {calls} budget {k} consumed {}", st.steps_consumed));
                }
            }
            // truthfulness invariants of the status report (C11), observed at the API boundary
            {
                let now = verif::counters().ticks;
                let executed = now - prev_ticks;
                prev_ticks = now;
                if executed != st.steps_consumed as u64 && inv.len() < 8 {
                    inv.push(format!(
                        "steps-accounting: call {calls} reported {} executed {executed}",
                        st.steps_consumed
                    ));
                }
                let main_done = matches!(rt.main().status(), abra_core::vm::VmStatus::Done);
                let main_err = rt.main().get_error().is_some();
                let kd = matches!(st.kind, RuntimeStatusKind::Done);
                let ke = matches!(st.kind, RuntimeStatusKind::MainThreadError(_));
                if kd != main_done && inv.len() < 8 {
                    inv.push(format!("done-mismatch: call {calls} reported_done={kd} main_done={main_done}"));
                }
                if ke != (main_err && !main_done) && inv.len() < 8 {
                    inv.push(format!("error-mismatch: call {calls} reported_error={ke} main_error={main_err}"));
                }
                if matches!(st.kind, RuntimeStatusKind::PendingHostFunc)
                    && rt.verif_pending_host_thread().is_none()
                    && inv.len() < 8
                {
                    inv.push(format!("host-mismatch: call {calls} reported a pending host call but no task has one"));
                }
                max_threads = max_threads.max(rt.verif_thread_count());
            }
            let (hb, ho) = rt.verif_heap_stats();
            peak_heap = peak_heap.max(hb);
            peak_objs = peak_objs.max(ho);
            let kind = match &st.kind {
                RuntimeStatusKind::Done => "done",
                RuntimeStatusKind::PendingHostFunc => "host",
                RuntimeStatusKind::OutOfSteps => "steps",
                RuntimeStatusKind::MainThreadError(_) => "error",
            };
            if want_trace && trace.len() < 20000 {
                trace.push(json!([k, st.steps_consumed, kind, output.len(), verif::counters().ticks]));
            }
            match st.kind {
                RuntimeStatusKind::Done => {
                    status = "done";
                    let n = rt.main().verif_stack_len();
                    stack_len_done = Some(n);
                    if n > 0 {
                        top = Some(verif::render_value(&rt.top()));
                    }
                    break;
                }
                RuntimeStatusKind::MainThreadError(e) => {
                    status = "error";
                    err_text = Some(format!("{e}"));
                    break;
                }
                RuntimeStatusKind::PendingHostFunc => {
                    if delay_left > 0 {
                        delay_left -= 1;
                    } else {
                        delay_left = delay;
                        for thread in rt.iter_threads_mut() {
                            if let Some(id) = thread.get_pending_host_func() {
                                host_calls += 1;
                                let Some(h) = cfg.hosts.get(id as usize) else {
                                    panic!("HARNESS: unknown host id {id}");
                                };
                                let t: &mut VmGreenThread = thread;
                                let mut args = vec![];
                                for ty in h.args.iter().rev() {
                                    args.push(pop_arg(t, ty));
                                }
                                args.reverse();
                                match h.name.as_str() {
                                    "print_string" => {
                                        // args[0] is a debug-quoted string; unquote via JSON-ish
                                        let s: String = unquote(&args[0]);
                                        output.push_str(&s);
                                    }
                                    "eprint_string" => {
                                        err_output.push_str(&unquote(&args[0]));
                                    }
                                    _ => {
                                        if h.log {
                                            output.push_str(&format!(
                                                "<<{}({})>>\n",
                                                h.name,
                                                args.join(";")
                                            ));
                                        }
                                    }
                                }
                                let i = reply_idx.entry(h.name.clone()).or_insert(0);
                                // per-run replies override the job-level script
                                let run_replies = spec
                                    .get("replies")
                                    .and_then(|r| r.get(&h.name))
                                    .and_then(|r| r.as_array());
                                let replies: &[J] = match run_replies {
                                    Some(r) => r,
                                    None => &h.replies,
                                };
                                let reply = if replies.is_empty() {
                                    J::Null
                                } else if *i < replies.len() {
                                    replies[*i].clone()
                                } else if spec.get("replies_cycle").and_then(|b| b.as_bool()).unwrap_or(false) {
                                    replies[*i % replies.len()].clone()
                                } else {
                                    replies[replies.len() - 1].clone()
                                };
                                *i += 1;
                                push_ret(t, &h.ret, &reply);
                                t.clear_pending_host_func();
                            }
                        }
                    }
                }
                RuntimeStatusKind::OutOfSteps => {}
            }
            if st.steps_consumed == 0 {
                stuck += 1;
                if stuck > 10_000 {
                    status = "stuck";
                    break;
                }
            } else {
                stuck = 0;
            }
            if steps > max_steps {
                status = "cap";
                break;
            }
            if let Some(d) = drop_after
                && calls >= d
            {
                status = "dropped";
                break;
            }
        }
        drop(rt);
    }));
    let mut out = Map::new();
    let panic = if res.is_err() {
        status = "panic";
        Some(take_panic())
    } else {
        None
    };
    let viol: Vec<J> = verif::take_violations()
        .into_iter()
        .map(|v| json!({"kind": v.kind, "site": v.site, "tick": v.tick}))
        .collect();
    let c = verif::counters();
    verif::set_gc_plan(GcPlan::Default);
    verif::set_reach_check(false);
    if quarantine {
        verif::release_quarantine();
    }
    verif::set_quarantine(false);
    out.insert("status".into(), json!(status));
    out.insert("output".into(), json!(output));
    if !err_output.is_empty() {
        out.insert("err_output".into(), json!(err_output));
    }
    out.insert("top".into(), json!(top));
    out.insert("stack_len".into(), json!(stack_len_done));
    out.insert("err".into(), json!(err_text));
    out.insert("panic".into(), json!(panic));
    out.insert("steps".into(), json!(steps));
    out.insert("calls".into(), json!(calls));
    out.insert("over_budget".into(), json!(over_budget));
    out.insert("inv".into(), json!(inv));
    out.insert("max_threads".into(), json!(max_threads));
    out.insert("host_calls".into(), json!(host_calls));
    out.insert("viol".into(), json!(viol));
    out.insert("peak_heap".into(), json!(peak_heap));
    out.insert("peak_objs".into(), json!(peak_objs));
    out.insert(
        "gc".into(),
        json!({"ticks": c.ticks, "started": c.cycles_started, "completed": c.cycles_completed,
               "mark_inc": c.mark_increments, "sweep_inc": c.sweep_increments, "swept": c.objects_swept,
               "barrier": c.barrier_hits, "parked": c.parked, "live_checks": c.live_checks,
               "reach_checks": c.reach_checks, "sched": format!("{:016x}", c.schedule_hash),
               "dropped": [c.threads_dropped[0], c.threads_dropped[1], c.threads_dropped[2]]}),
    );
    if want_trace {
        out.insert("trace".into(), J::Array(trace));
    }
    J::Object(out)
}

fn unquote(dbg: &str) -> String {
    // inverse of format!("{:?}", s) for the escapes Rust's Debug produces
    let inner = &dbg[1..dbg.len() - 1];
    let mut out = String::new();
    let mut it = inner.chars();
    while let Some(c) = it.next() {
        if c != '\\' {
            out.push(c);
            continue;
        }
        match it.next() {
            Some('n') => out.push('\n'),
            Some('r') => out.push('\r'),
            Some('t') => out.push('\t'),
            Some('0') => out.push('\0'),
            Some('\\') => out.push('\\'),
            Some('"') => out.push('"'),
            Some('\'') => out.push('\''),
            Some('u') => {
                let mut hex = String::new();
                for h in it.by_ref() {
                    if h == '{' {
                        continue;
                    }
                    if h == '}' {
                        break;
                    }
                    hex.push(h);
                }
                if let Some(ch) = u32::from_str_radix(&hex, 16).ok().and_then(char::from_u32) {
                    out.push(ch);
                }
            }
            Some(o) => out.push(o),
            None => {}
        }
    }
    out
}

fn outcome_key(o: &J) -> String {
    format!(
        "{}|{}|{}|{}|{}",
        o["status"], o["output"], o["top"], o["err"], o["panic"]["msg"]
    )
}

fn compile_guarded<T>(f: impl FnOnce() -> Result<T, abra_core::ErrorSummary>) -> (Option<T>, J) {
    clear_panic();
    match catch_unwind(AssertUnwindSafe(f)) {
        Ok(Ok(p)) => (Some(p), json!({"ok": true})),
        Ok(Err(e)) => (None, json!({"ok": false, "errors": format!("{e}")})),
        Err(_) => (None, json!({"ok": false, "panic": take_panic()})),
    }
}

fn job_run(job: &J, std: &Std) -> J {
    let hosts = host_table(job);
    let main = main_name(job);
    let mut res = Map::new();
    if job.get("also_check").and_then(|b| b.as_bool()).unwrap_or(false) {
        let (_, chk) = compile_guarded(|| abra_core::check(&main, provider(job, std)));
        res.insert("check".into(), chk);
    }
    // compile once per optimizer setting that the runs ask for
    let runs: Vec<J> = job.get("runs").and_then(|r| r.as_array()).cloned().unwrap_or_default();
    let gen_spec = job.get("run_gen").cloned();
    let mut want_opt = runs.iter().any(|r| !r.get("noopt").and_then(|b| b.as_bool()).unwrap_or(false));
    let want_noopt = runs.iter().any(|r| r.get("noopt").and_then(|b| b.as_bool()).unwrap_or(false));
    if gen_spec.is_some() || runs.is_empty() {
        want_opt = true;
    }
    let t0 = Instant::now();
    let (prog_opt, c_opt) = if want_opt {
        verif::set_skip_optimizer(false);
        compile_guarded(|| abra_core::compile_bytecode(&main, provider(job, std)))
    } else {
        (None, J::Null)
    };
    let (prog_noopt, c_noopt) = if want_noopt {
        verif::set_skip_optimizer(true);
        let r = compile_guarded(|| abra_core::compile_bytecode(&main, provider(job, std)));
        verif::set_skip_optimizer(false);
        r
    } else {
        (None, J::Null)
    };
    let mut c_opt = c_opt;
    let mut c_noopt = c_noopt;
    if let (Some(p), Some(o)) = (&prog_opt, c_opt.as_object_mut()) {
        let (n, h) = verif::program_stats(p);
        o.insert("len".into(), json!(n));
        o.insert("hash".into(), json!(format!("{h:016x}")));
    }
    if let (Some(p), Some(o)) = (&prog_noopt, c_noopt.as_object_mut()) {
        let (n, h) = verif::program_stats(p);
        o.insert("len".into(), json!(n));
        o.insert("hash".into(), json!(format!("{h:016x}")));
    }
    res.insert("compile".into(), c_opt);
    if want_noopt {
        res.insert("compile_noopt".into(), c_noopt);
    }
    res.insert("compile_ms".into(), json!(t0.elapsed().as_millis() as u64));

    let mut outs: Vec<J> = vec![];
    for r in &runs {
        let noopt = r.get("noopt").and_then(|b| b.as_bool()).unwrap_or(false);
        let prog = if noopt { &prog_noopt } else { &prog_opt };
        match prog {
            None => outs.push(json!({"status": "nocompile"})),
            Some(p) => {
                let p = p.clone();
                outs.push(exec_run(move || Runtime::new(p), &RunCfg { spec: r, hosts: &hosts }));
            }
        }
    }
    if !runs.is_empty() {
        res.insert("runs".into(), J::Array(outs));
    }

    // generated run families: the executor expands them and reports only the reference outcome,
    // the variants that differ from it, all monitor violations, and aggregated observations.
    if let (Some(g), Some(p)) = (gen_spec, &prog_opt) {
        res.insert("gen".into(), run_family(&g, &hosts, || Runtime::new(p.clone())));
    }
    J::Object(res)
}

fn merge_obj(base: &J, over: &J) -> J {
    let mut m = base.as_object().cloned().unwrap_or_default();
    if let Some(o) = over.as_object() {
        for (k, v) in o {
            m.insert(k.clone(), v.clone());
        }
    }
    J::Object(m)
}

fn run_family(g: &J, hosts: &[HostSpec], mk: impl Fn() -> Runtime) -> J {
    let base = g.get("base").cloned().unwrap_or(json!({}));
    let kind = g.get("kind").and_then(|k| k.as_str()).unwrap_or("");
    // reference run
    let ref_spec = merge_obj(&base, g.get("ref").unwrap_or(&json!({})));
    let reference = exec_run(&mk, &RunCfg { spec: &ref_spec, hosts });
    let ref_key = outcome_key(&reference);
    let ref_ticks = reference["gc"]["ticks"].as_u64().unwrap_or(0);
    let mut variants: Vec<J> = vec![];
    match kind {
        "gc_starts" => {
            let max_tick = g.get("max_tick").and_then(|x| x.as_u64()).unwrap_or(400).min(ref_ticks);
            let mut stride = g.get("stride").and_then(|x| x.as_u64()).unwrap_or(1).max(1);
            if let Some(points) = g.get("points").and_then(|x| x.as_u64()) {
                stride = stride.max(max_tick.div_ceil(points.max(1)));
            }
            let marks = g.get("marks").and_then(|x| x.as_array()).cloned().unwrap_or(vec![json!(1), json!("max")]);
            let sweeps = g.get("sweeps").and_then(|x| x.as_array()).cloned().unwrap_or(vec![json!(1), json!("max")]);
            let extra: Vec<u64> = g
                .get("then_every")
                .and_then(|x| x.as_u64())
                .map(|e| vec![e])
                .unwrap_or_default();
            let mut t = 1;
            while t <= max_tick {
                for m in &marks {
                    for s in &sweeps {
                        let mut starts = vec![t];
                        // optional follow-up cycles at fixed distance after the first one
                        for e in &extra {
                            let mut u = t + e;
                            while u <= ref_ticks + 8 * e && starts.len() < 64 {
                                starts.push(u);
                                u += e;
                            }
                        }
                        variants.push(json!({"gc": {"plan": "scripted", "start": starts, "mark": m, "sweep": s}}));
                    }
                }
                t += stride;
            }
        }
        "gc_random" => {
            let n = g.get("n").and_then(|x| x.as_u64()).unwrap_or(16);
            let seed = g.get("seed").and_then(|x| x.as_u64()).unwrap_or(1);
            let mut r = SplitMix(seed);
            for _ in 0..n {
                let pm = [5u64, 20, 80, 300, 1000][(r.next() % 5) as usize];
                let max = [1u64, 8, 64, 512, 100000][(r.next() % 5) as usize];
                variants.push(json!({"gc": {"plan": "random", "seed": r.next() >> 1, "pm": pm, "max": max}}));
            }
        }
        "budgets" => {
            if let Some(ks) = g.get("ks").and_then(|x| x.as_array()) {
                for k in ks {
                    variants.push(json!({"budget": {"k": k}}));
                }
            }
            if let Some(seqs) = g.get("seqs").and_then(|x| x.as_array()) {
                for s in seqs {
                    variants.push(json!({"budget": {"seq": s}}));
                }
            }
            let nrand = g.get("nrand").and_then(|x| x.as_u64()).unwrap_or(0);
            let seed = g.get("seed").and_then(|x| x.as_u64()).unwrap_or(1);
            let mut r = SplitMix(seed);
            for _ in 0..nrand {
                let max = [2u64, 3, 5, 9, 33, 200][(r.next() % 6) as usize];
                variants.push(json!({"budget": {"rand": {"seed": r.next() >> 1, "max": max}}}));
            }
            if let Some(ds) = g.get("delays").and_then(|x| x.as_array()) {
                let vs = variants.clone();
                for d in ds {
                    if d.as_u64() == Some(0) {
                        continue;
                    }
                    for v in vs.iter().step_by(3) {
                        variants.push(merge_obj(v, &json!({"delay": d})));
                    }
                }
            }
        }
        "list" => {
            if let Some(vs) = g.get("variants").and_then(|x| x.as_array()) {
                variants = vs.clone();
            }
        }
        _ => {}
    }
    // a variant may carry both gc and budget overrides in cross products
    if let Some(cross) = g.get("cross_budgets").and_then(|x| x.as_array()) {
        let vs = variants.clone();
        variants.clear();
        for v in &vs {
            for k in cross {
                variants.push(merge_obj(v, &json!({"budget": {"k": k}})));
            }
        }
    }
    let mut diffs: Vec<J> = vec![];
    let mut viols: Vec<J> = vec![];
    let mut scheds: BTreeSet<String> = BTreeSet::new();
    let mut agg = [0u64; 8];
    let mut nruns = 0u64;
    let mut over_budget = 0u64;
    let mut statuses: HashMap<String, u64> = HashMap::new();
    for v in &variants {
        let spec = merge_obj(&base, v);
        let o = exec_run(&mk, &RunCfg { spec: &spec, hosts });
        nruns += 1;
        let gc = &o["gc"];
        for (i, k) in ["started", "completed", "swept", "barrier", "parked", "live_checks", "reach_checks", "ticks"]
            .iter()
            .enumerate()
        {
            agg[i] += gc[*k].as_u64().unwrap_or(0);
        }
        if gc["started"].as_u64().unwrap_or(0) > 0 || kind == "budgets" {
            scheds.insert(format!("{}:{}", gc["sched"].as_str().unwrap_or(""), o["calls"]));
        }
        if o["over_budget"].as_bool().unwrap_or(false) {
            over_budget += 1;
        }
        *statuses.entry(o["status"].as_str().unwrap_or("").to_string()).or_insert(0) += 1;
        let has_viol = o["viol"].as_array().map(|a| !a.is_empty()).unwrap_or(false);
        if has_viol && viols.len() < 8 {
            viols.push(json!({"variant": v, "outcome": o}));
        } else if outcome_key(&o) != ref_key && diffs.len() < 8 {
            diffs.push(json!({"variant": v, "outcome": o}));
        }
    }
    json!({
        "ref": reference, "variants": nruns, "diffs": diffs, "viols": viols,
        "distinct_schedules": scheds.len(), "over_budget": over_budget, "statuses": statuses,
        "agg": {"started": agg[0], "completed": agg[1], "swept": agg[2], "barrier": agg[3],
                "parked": agg[4], "live_checks": agg[5], "reach_checks": agg[6], "ticks": agg[7]},
    })
}

fn job_check(job: &J, std: &Std, also_compile: bool) -> J {
    let main = main_name(job);
    let t0 = Instant::now();
    let (_, chk) = compile_guarded(|| abra_core::check(&main, provider(job, std)));
    let mut res = Map::new();
    res.insert("check".into(), chk);
    if also_compile {
        let (p, c) = compile_guarded(|| abra_core::compile_bytecode(&main, provider(job, std)));
        drop(p);
        res.insert("compile".into(), c);
    }
    res.insert("ms".into(), json!(t0.elapsed().as_millis() as u64));
    J::Object(res)
}

fn job_lsp(job: &J, std: &Std) -> J {
    let main = main_name(job);
    clear_panic();
    let mut res = Map::new();
    let r = catch_unwind(AssertUnwindSafe(|| {
        let a = abra_core::check_lsp(&main, provider(job, std));
        let mut out = Map::new();
        let errs = a.errors();
        let diags = a.verif_diagnostics();
        let mut jd = vec![];
        for (e, d) in errs.iter().zip(diags.iter()) {
            let fname = a
                .file_db
                .get(e.file_id)
                .map(|f| f.absolute_path.to_string_lossy().to_string())
                .unwrap_or_default();
            jd.push(json!({
                "message": e.message, "file": fname, "file_id": e.file_id,
                "lo": e.range.start, "hi": e.range.end,
                "labels": d.labels.iter().map(|(f, r, m)| json!([f, r.start, r.end, m])).collect::<Vec<_>>(),
                "notes": d.notes,
            }));
        }
        out.insert("diags".into(), J::Array(jd));
        // rendering must not panic either
        if job.get("render").and_then(|b| b.as_bool()).unwrap_or(false) {
            let rendered = match abra_core::check(&main, provider(job, std)) {
                Ok(()) => String::new(),
                Err(e) => format!("{e}"),
            };
            out.insert("rendered_len".into(), json!(rendered.len()));
        }
        let src_len = job
            .get("files")
            .and_then(|f| f.get(&main))
            .and_then(|s| s.as_str())
            .map(|s| s.len())
            .unwrap_or(0);
        let fid = a.file_id_for_path(std::path::Path::new(&main));
        if let Some(fid) = fid {
            let mut offsets: Vec<usize> = vec![];
            match job.get("queries") {
                Some(J::String(s)) if s == "all" => offsets = (0..=src_len + 1).collect(),
                Some(J::Array(v)) => offsets = v.iter().filter_map(|x| x.as_u64()).map(|x| x as usize).collect(),
                _ => {}
            }
            let detail = job.get("query_detail").and_then(|b| b.as_bool()).unwrap_or(false);
            let mut qd = vec![];
            let mut nq = 0u64;
            let mut ndef = 0u64;
            let mut nty = 0u64;
            let mut ncomp = 0u64;
            for off in offsets {
                CUR_OFFSET.with(|c| c.set(off as i64));
                let d = a.definition_at(fid, off);
                let t = a.type_at(fid, off);
                let c = a.completions_at(fid, off);
                nq += 3;
                ndef += d.is_some() as u64;
                nty += t.is_some() as u64;
                ncomp += (!c.is_empty()) as u64;
                if detail {
                    qd.push(json!({
                        "off": off,
                        "def": d.map(|d| json!([d.file_id, d.range.start, d.range.end])),
                        "type": t,
                        "ncomp": c.len(),
                    }));
                }
            }
            CUR_OFFSET.with(|c| c.set(-1));
            out.insert("queries".into(), json!(nq));
            out.insert("defs".into(), json!(ndef));
            out.insert("types".into(), json!(nty));
            out.insert("comps".into(), json!(ncomp));
            out.insert("main_file_id".into(), json!(fid));
            if detail {
                out.insert("qdetail".into(), J::Array(qd));
            }
        }
        J::Object(out)
    }));
    match r {
        Ok(o) => {
            res.insert("lsp".into(), o);
        }
        Err(_) => {
            let off = CUR_OFFSET.with(|c| c.get());
            res.insert("lsp".into(), json!({"panic": take_panic(), "at_offset": off}));
        }
    }
    J::Object(res)
}

thread_local! {
    static CUR_OFFSET: std::cell::Cell<i64> = const { std::cell::Cell::new(-1) };
}

/// C07: create / run / drop runtimes repeatedly from clones of ONE compiled program and record the
/// process's live heap after every cycle. `histories` = run specs (budget, max_steps,
/// drop_after_calls, ...) applied round-robin; `cycles` = how many runtimes are created.
fn job_lifecycle(job: &J, std: &Std) -> J {
    let hosts = host_table(job);
    let main = main_name(job);
    let (prog, c) = compile_guarded(|| abra_core::compile_bytecode(&main, provider(job, std)));
    let mut res = Map::new();
    res.insert("compile".into(), c);
    let Some(prog) = prog else { return J::Object(res) };
    let histories: Vec<J> = job.get("histories").and_then(|h| h.as_array()).cloned().unwrap_or_else(|| vec![json!({})]);
    let cycles = job.get("cycles").and_then(|c| c.as_u64()).unwrap_or(20) as usize;
    // pre-sized so that recording a sample does not allocate
    let mut live: Vec<(isize, isize)> = Vec::with_capacity(cycles);
    let mut statuses: HashMap<String, u64> = HashMap::new();
    for k in ["done", "error", "cap", "dropped", "panic", "stuck"] {
        statuses.insert(k.to_string(), 0);
    }
    // green threads dropped while their collector was idle / marking / sweeping, over all cycles
    let mut drop_phase = [0u64; 3];
    // scratch the executor itself allocates per run (output strings, maps) is freed before sampling
    for i in 0..cycles {
        let spec = &histories[i % histories.len()];
        let p = prog.clone();
        let o = exec_run(move || Runtime::new(p), &RunCfg { spec, hosts: &hosts });
        *statuses.entry(o["status"].as_str().unwrap_or("").to_string()).or_insert(0) += 1;
        for (ph, slot) in drop_phase.iter_mut().enumerate() {
            *slot += o["gc"]["dropped"][ph].as_u64().unwrap_or(0);
        }
        drop(o);
        live.push((LIVE_BYTES.load(Ordering::Relaxed), LIVE_BLOCKS.load(Ordering::Relaxed)));
    }
    drop(prog);
    res.insert("live".into(), J::Array(live.iter().map(|(b, n)| json!([b, n])).collect()));
    res.insert("statuses".into(), json!(statuses));
    res.insert("drop_phase".into(), json!(drop_phase));
    J::Object(res)
}

fn run_job(job: &J, std: &Std) -> J {
    let mode = job.get("mode").and_then(|m| m.as_str()).unwrap_or("run");
    let t0 = Instant::now();
    let mut r = match mode {
        "run" => job_run(job, std),
        "check" => job_check(job, std, false),
        "checkcompile" => job_check(job, std, true),
        "lsp" => job_lsp(job, std),
        "lifecycle" => job_lifecycle(job, std),
        _ => json!({"harness_error": format!("unknown mode {mode}")}),
    };
    if let Some(o) = r.as_object_mut() {
        o.insert("id".into(), job.get("id").cloned().unwrap_or(J::Null));
        o.insert("wall_ms".into(), json!(t0.elapsed().as_millis() as u64));
    }
    r
}

fn main() {
    if std::env::var("VERIF_COUNT_ALLOC").is_ok() {
        // set before anything else allocates on behalf of a job; never toggled afterwards
        COUNTING.store(true, Ordering::Relaxed);
    }
    let args: Vec<String> = std::env::args().collect();
    if args.len() < 5 || args[1] != "exec" {
        eprintln!("usage: abra-verif exec <jobs.jsonl> <results.jsonl> <journal> [threads] [job_timeout_s]");
        std::process::exit(2);
    }
    install_panic_hook();
    let jobs: Vec<String> = BufReader::new(std::fs::File::open(&args[2]).expect("jobs file"))
        .lines()
        .map_while(Result::ok)
        .filter(|l| !l.trim().is_empty())
        .collect();
    let results = Arc::new(Mutex::new(std::fs::File::create(&args[3]).expect("results file")));
    let journal = Arc::new(Mutex::new(std::fs::File::create(&args[4]).expect("journal file")));
    let nthreads: usize = args.get(5).and_then(|s| s.parse().ok()).unwrap_or(16);
    let timeout_s: u64 = args.get(6).and_then(|s| s.parse().ok()).unwrap_or(120);
    let jobs = Arc::new(jobs);
    let next = Arc::new(AtomicUsize::new(0));
    let std_mods = Arc::new(load_std());
    // per-worker (job id, start) for the watchdog
    let inflight: Arc<Mutex<HashMap<usize, (String, Instant)>>> = Arc::new(Mutex::new(HashMap::new()));
    let mut handles = vec![];
    for w in 0..nthreads {
        let jobs = jobs.clone();
        let next = next.clone();
        let results = results.clone();
        let journal = journal.clone();
        let std_mods = std_mods.clone();
        let inflight = inflight.clone();
        let h = std::thread::Builder::new()
            .stack_size(1 << 30)
            .spawn(move || {
                loop {
                    let i = next.fetch_add(1, Ordering::SeqCst);
                    if i >= jobs.len() {
                        break;
                    }
                    let job: J = match serde_json::from_str(&jobs[i]) {
                        Ok(j) => j,
                        Err(e) => {
                            let mut f = results.lock().unwrap();
                            writeln!(f, "{}", json!({"harness_error": format!("bad job json: {e}"), "line": i})).unwrap();
                            continue;
                        }
                    };
                    let id = job.get("id").and_then(|x| x.as_str()).unwrap_or("?").to_string();
                    {
                        let mut j = journal.lock().unwrap();
                        writeln!(j, "B {id}").unwrap();
                        j.flush().unwrap();
                    }
                    inflight.lock().unwrap().insert(w, (id.clone(), Instant::now()));
                    let r = match catch_unwind(AssertUnwindSafe(|| run_job(&job, &std_mods))) {
                        Ok(r) => r,
                        Err(_) => json!({"id": id, "harness_panic": take_panic()}),
                    };
                    inflight.lock().unwrap().remove(&w);
                    {
                        let mut f = results.lock().unwrap();
                        writeln!(f, "{}", r).unwrap();
                    }
                    {
                        let mut j = journal.lock().unwrap();
                        writeln!(j, "E {id}").unwrap();
                        j.flush().unwrap();
                    }
                }
            })
            .unwrap();
        handles.push(h);
    }
    // watchdog: a job that exceeds the timeout is journalled and the process exits with 97;
    // the driver re-runs the unfinished jobs and treats the timed-out one as inconclusive
    // unless it reproduces alone with a larger limit.
    {
        let inflight = inflight.clone();
        let journal = journal.clone();
        let results = results.clone();
        std::thread::spawn(move || {
            loop {
                std::thread::sleep(Duration::from_millis(500));
                let now = Instant::now();
                let g = inflight.lock().unwrap();
                for (id, t0) in g.values() {
                    if now.duration_since(*t0) > Duration::from_secs(timeout_s) {
                        let mut j = journal.lock().unwrap();
                        writeln!(j, "T {id}").unwrap();
                        j.flush().unwrap();
                        results.lock().unwrap().flush().unwrap();
                        std::process::exit(97);
                    }
                }
            }
        });
    }
    for h in handles {
        let _ = h.join();
    }
    results.lock().unwrap().flush().unwrap();
}
