"""Shared driver for the runtime-monitoring checks (see DESIGN.md §1).

A check module exposes `run(ctx)`. It generates jobs, hands them to the real code through the
executor (`harness/target/release/abra-verif`, built from /repo's working tree with the `verif`
hooks), applies its oracle to what was observed and registers candidate violations. The driver
re-runs every candidate alone in a fresh process before it is reported, matches confirmed
violations against known_findings.json, writes the evidence file and sets the exit code:

  0  property held on everything observed (KNOWN-FINDING lines allowed)
  1  VIOLATION property=<id> replay=<path>
  3  inconclusive (harness error, watchdog, too little observed) - never a VIOLATION line
"""
import hashlib
import json
import os
import subprocess
import sys
import time

ROOT = os.path.dirname(os.path.abspath(__file__))
HARNESS = os.path.join(ROOT, "harness")
BIN = os.path.join(HARNESS, "target", "release", "abra-verif")
WORK = os.path.join(ROOT, "work")
NCPU = os.cpu_count() or 4


class Rng:
    """SplitMix64 - own PRNG so runs replay identically everywhere."""

    def __init__(self, seed):
        self.s = seed & 0xFFFFFFFFFFFFFFFF

    def next(self):
        self.s = (self.s + 0x9E3779B97F4A7C15) & 0xFFFFFFFFFFFFFFFF
        z = self.s
        z = ((z ^ (z >> 30)) * 0xBF58476D1CE4E5B9) & 0xFFFFFFFFFFFFFFFF
        z = ((z ^ (z >> 27)) * 0x94D049BB133111EB) & 0xFFFFFFFFFFFFFFFF
        return z ^ (z >> 31)

    def below(self, n):
        return self.next() % n if n > 0 else 0

    def range(self, lo, hi):  # inclusive
        return lo + self.below(hi - lo + 1)

    def chance(self, num, den=100):
        return self.below(den) < num

    def choice(self, xs):
        return xs[self.below(len(xs))]

    def shuffle(self, xs):
        for i in range(len(xs) - 1, 0, -1):
            j = self.below(i + 1)
            xs[i], xs[j] = xs[j], xs[i]
        return xs

    def sample(self, xs, k):
        xs = list(xs)
        self.shuffle(xs)
        return xs[:k]

    def fork(self, *tags):
        return Rng(h64("%d|%s" % (self.s, "|".join(str(t) for t in tags))))


def h64(s):
    if isinstance(s, str):
        s = s.encode("utf-8", "surrogatepass")
    return int.from_bytes(hashlib.blake2b(s, digest_size=8).digest(), "big")


def hhex(s):
    return "%016x" % h64(s)


class Inconclusive(Exception):
    pass


BIN_ASAN = os.path.join(HARNESS, "target-asan", "x86_64-unknown-linux-gnu", "release", "abra-verif")
_built_asan = False


def build_asan():
    """AddressSanitizer build of the same executor (nightly, -Zsanitizer=address); ~1 min the first time."""
    global _built_asan
    if _built_asan:
        return
    env = dict(os.environ, CARGO_NET_OFFLINE="true", RUSTFLAGS="-Zsanitizer=address -Cforce-frame-pointers=yes",
               CARGO_TARGET_DIR=os.path.join(HARNESS, "target-asan"))
    p = subprocess.run(["cargo", "+nightly", "build", "--release", "--offline", "--quiet", "--target", "x86_64-unknown-linux-gnu"],
                       cwd=HARNESS, env=env, stdout=subprocess.PIPE, stderr=subprocess.STDOUT, text=True)
    if p.returncode != 0:
        sys.stdout.write(p.stdout[-3000:])
        raise Inconclusive("AddressSanitizer build of the executor failed")
    _built_asan = True


def asan_report(res):
    """(class, text) of an AddressSanitizer report in a job result, or None"""
    import re
    err = (res.get("crash") or {}).get("stderr") or ""
    m = re.search(r"ERROR: AddressSanitizer: ([\w-]+)", err)
    if not m:
        return None
    frames = re.findall(r"#\d+ 0x[0-9a-f]+ in (\S+)", err)
    site = next((f for f in frames if "abra_core" in f), frames[0] if frames else "?")
    return ("asan:%s@%s" % (m.group(1), re.sub(r"::h[0-9a-f]{16}$", "", site)[:80]), err[-2500:])


_built = False


def build():
    """(Re)build the executor from /repo's current working tree. Cheap when nothing changed."""
    global _built
    if _built:
        return
    env = dict(os.environ, CARGO_NET_OFFLINE="true")
    p = subprocess.run(
        ["cargo", "build", "--release", "--offline", "--quiet"],
        cwd=HARNESS, env=env, stdout=subprocess.PIPE, stderr=subprocess.STDOUT, text=True)
    if p.returncode != 0:
        sys.stdout.write(p.stdout[-4000:])
        raise Inconclusive("executor build failed (does /repo compile with --features verif?)")
    _built = True


class Executor:
    def __init__(self, tag):
        # one scratch directory per process, so that concurrent runs of one check do not collide
        self.dir = os.path.join(WORK, tag, "p%d" % os.getpid())
        os.makedirs(self.dir, exist_ok=True)
        self.n = 0
        self.crash_logs = []

    count_alloc = False   # set by checks that need the executor's counting allocator (C07)
    asan = False          # run the AddressSanitizer build of the executor (real frees: use with quarantine off)

    def _run_once(self, jobs, threads, timeout_s, job_timeout_s):
        self.n += 1
        base = os.path.join(self.dir, "b%04d" % self.n)
        with open(base + ".jobs", "w") as f:
            for j in jobs:
                f.write(json.dumps(j, ensure_ascii=False) + "\n")
        env = dict(os.environ, RUST_BACKTRACE="0")
        if self.count_alloc or any(j.get("mode") == "lifecycle" for j in jobs):
            env["VERIF_COUNT_ALLOC"] = "1"
        binary = BIN
        if self.asan:
            build_asan()
            binary = BIN_ASAN
            env["ASAN_OPTIONS"] = "halt_on_error=1:detect_leaks=0:abort_on_error=0:detect_stack_use_after_return=0"
        try:
            p = subprocess.run(
                [binary, "exec", base + ".jobs", base + ".res", base + ".jrn", str(threads), str(job_timeout_s)],
                stdout=subprocess.PIPE, stderr=subprocess.PIPE, timeout=timeout_s, env=env)
            rc = p.returncode
            err = p.stderr.decode("utf-8", "replace")[-3000:]
        except subprocess.TimeoutExpired:
            rc, err = -999, "driver timeout"
        results = {}
        if os.path.exists(base + ".res"):
            with open(base + ".res", encoding="utf-8") as f:
                for line in f:
                    line = line.strip()
                    if not line:
                        continue
                    try:
                        r = json.loads(line)
                    except Exception:
                        continue
                    if "id" in r:
                        results[r["id"]] = r
        begun, ended, timed = [], set(), set()
        if os.path.exists(base + ".jrn"):
            with open(base + ".jrn") as f:
                for line in f:
                    if line.startswith("B "):
                        begun.append(line[2:].strip())
                    elif line.startswith("E "):
                        ended.add(line[2:].strip())
                    elif line.startswith("T "):
                        timed.add(line[2:].strip())
        for ext in (".jobs", ".res", ".jrn"):
            try:
                os.remove(base + ext)
            except OSError:
                pass
        inflight = [b for b in begun if b not in ended]
        return rc, err, results, inflight, timed

    def run(self, jobs, threads=NCPU, timeout_s=3600, job_timeout_s=120):
        """Run all jobs; returns {id: result}. A job whose process aborted (SIGSEGV, abort,
        stack overflow) gets {"crash": {...}} after being re-run alone; a job that hit the
        per-job watchdog gets {"timeout": True}."""
        build()
        byid = {j["id"]: j for j in jobs}
        pending = list(jobs)
        out = {}
        rounds = 0
        while pending:
            rounds += 1
            if rounds > 60:
                raise Inconclusive("executor keeps dying")
            rc, err, results, inflight, timed = self._run_once(pending, threads, timeout_s, job_timeout_s)
            out.update(results)
            if rc == 0:
                missing = [j for j in pending if j["id"] not in out]
                if missing:
                    raise Inconclusive("executor lost %d jobs" % len(missing))
                break
            if rc == -999:
                raise Inconclusive("executor exceeded the driver watchdog")
            # abnormal exit: pin it on the in-flight jobs, each re-run alone
            suspects = [i for i in inflight if i not in out]
            for sid in suspects:
                if sid in timed:
                    rc2, err2, res2, _, timed2 = self._run_once([byid[sid]], 1, timeout_s, job_timeout_s * 3)
                    if rc2 == 0 and sid in res2:
                        out[sid] = res2[sid]
                    elif sid in timed2:
                        out[sid] = {"id": sid, "timeout": True}
                    else:
                        out[sid] = {"id": sid, "crash": {"rc": rc2, "stderr": err2}}
                    continue
                rc2, err2, res2, _, timed2 = self._run_once([byid[sid]], 1, timeout_s, job_timeout_s)
                if rc2 == 0 and sid in res2:
                    out[sid] = res2[sid]
                elif sid in timed2:
                    out[sid] = {"id": sid, "timeout": True}
                else:
                    out[sid] = {"id": sid, "crash": {"rc": rc2, "stderr": err2}}
                    self.crash_logs.append((sid, rc2, err2))
            pending = [j for j in pending if j["id"] not in out]
        return out

    def run_alone(self, job, job_timeout_s=300):
        """Fresh single-threaded process for one job (confirmation / replay)."""
        build()
        if job.get("asan") and not self.asan:
            ex = Executor(os.path.basename(os.path.dirname(self.dir)) + "-asan")
            ex.asan = True
            return ex.run_alone(job, job_timeout_s)
        rc, err, results, inflight, timed = self._run_once([job], 1, 3600, job_timeout_s)
        if rc == 0 and job["id"] in results:
            return results[job["id"]]
        if job["id"] in timed:
            return {"id": job["id"], "timeout": True}
        return {"id": job["id"], "crash": {"rc": rc, "stderr": err}}


def diagnose_abort(job, timeout_s=180):
    """Re-run one job alone under gdb and name the call-stack cycle of a stack overflow / the
    innermost repository frames of any other fatal signal: a stable identity for a crash that the
    process itself cannot report. -> short string ('' when gdb gives nothing)"""
    import re
    import tempfile
    d = tempfile.mkdtemp(prefix="abort", dir=WORK)
    jf = os.path.join(d, "j.jsonl")
    with open(jf, "w") as f:
        f.write(json.dumps(job, ensure_ascii=False) + "\n")
    try:
        p = subprocess.run(["gdb", "-batch", "-ex", "run", "-ex", "bt 80", "--args", BIN, "exec", jf, jf + ".res", jf + ".jrn", "1", "150"],
                           stdout=subprocess.PIPE, stderr=subprocess.STDOUT, timeout=timeout_s)
        out = p.stdout.decode("utf-8", "replace")
    except Exception:
        out = ""
    finally:
        for fn in os.listdir(d):
            try:
                os.remove(os.path.join(d, fn))
            except OSError:
                pass
        try:
            os.rmdir(d)
        except OSError:
            pass
    sig = ""
    m = re.search(r"received signal (SIG\w+)", out)
    if m:
        sig = m.group(1)
    counts, order = {}, []
    for line in out.split("\n"):
        m = re.match(r"#\d+\s+(?:0x[0-9a-f]+ in )?([A-Za-z_][\w:<>{}#, ]*?) \(.*\) at (src/[\w/]+\.rs):\d+", line)
        if not m:
            continue
        name = "%s:%s" % (m.group(2).rsplit("/", 1)[-1], m.group(1).split("<")[0].strip())
        if name not in counts:
            order.append(name)
        counts[name] = counts.get(name, 0) + 1
    cyc = sorted(n for n in order if counts[n] >= 3)
    if cyc:
        return "%s recursion[%s]" % (sig or "overflow", ",".join(cyc))
    if order:
        return "%s at[%s]" % (sig or "fatal", ",".join(order[:3]))
    return sig


def load_known():
    p = os.path.join(ROOT, "known_findings.json")
    if not os.path.exists(p):
        return []
    with open(p) as f:
        return json.load(f).get("findings", [])


class Ctx:
    def __init__(self, prop, tier, seed, level):
        self.prop = prop
        self.tier = tier
        self.seed = seed
        self.level = level
        self.rng = Rng(h64("%s|%d" % (prop, seed)))
        self.ex = Executor(prop.lower())
        self.candidates = []   # (signature, what, job, judge)
        self.direct = []       # violations that need no executor (signature, what, replay dict)
        self.cov = {}
        self.assumptions = []
        self.t0 = time.time()
        self.inconclusive = []
        self.notes = []

    @property
    def quick(self):
        return self.tier == "quick"

    def run(self, jobs, **kw):
        return self.ex.run(jobs, **kw)

    def candidate(self, sig, what, job, judge):
        """judge(result) -> list of (sig, what) violations found in `result` of `job`."""
        self.candidates.append((sig, what, job, judge))

    def coverage(self, **kw):
        self.cov.update(kw)

    def need(self, cond, why):
        if not cond:
            self.inconclusive.append(why)


def asan_slice(ctx, jobs, what):
    """Run `jobs` on the AddressSanitizer build of the executor (real frees: the jobs must not ask for
    the quarantine). Every report is confirmed by re-running its job alone under ASan and then
    registered as a violation; returns (results, number of runs executed, reports found)."""
    ex = Executor(ctx.prop.lower() + "-asan")
    ex.asan = True
    results = ex.run(jobs, threads=NCPU, job_timeout_s=600)
    nruns = 0
    reports = 0
    seen = set()
    for job in jobs:
        res = results.get(job["id"], {})
        nruns += len(res.get("runs") or [])
        rep = asan_report(res)
        if rep is None:
            if "crash" in res:
                ctx.notes.append("ASan build: job %s died without a sanitizer report (rc=%s)" % (job["id"], res["crash"].get("rc")))
            continue
        cls, text = rep
        sig = "%s %s %s" % (ctx.prop, what, cls)
        if sig in seen:
            continue
        seen.add(sig)
        again = asan_report(ex.run_alone(job, job_timeout_s=600))
        if again is None or again[0] != cls:
            ctx.notes.append("ASan report not reproduced alone: %s" % sig)
            continue
        reports += 1
        ctx.direct.append((sig, "AddressSanitizer report while running job %s:\n%s" % (job["id"], text), dict(job, asan=True)))
    return results, nruns, reports


def finish(ctx, replay_mode=False):
    known = load_known()
    open_known = {(k["property"], k["signature"]): k for k in known if k.get("status") == "open"}
    # dedupe by signature, confirm one representative each (fresh process)
    by_sig = {}
    for sig, what, job, judge in ctx.candidates:
        by_sig.setdefault(sig, []).append((what, job, judge))
    confirmed = []
    unconfirmed = []
    budget = 60
    for sig, lst in by_sig.items():
        ok = False
        for what, job, judge in lst[:3]:
            if budget <= 0:
                break
            budget -= 1
            res = ctx.ex.run_alone(job)
            again = judge(res)
            hit = [a for a in again if a[0] == sig]
            if hit:
                confirmed.append((sig, hit[0][1], job))
                ok = True
                break
        if not ok:
            unconfirmed.append(sig)
    for sig, what, replay in ctx.direct:
        confirmed.append((sig, what, replay))
    rc = 0
    nviol = 0
    matched_known = []
    os.makedirs(os.path.join(ROOT, "replays", ctx.prop), exist_ok=True)
    for sig, what, job in confirmed:
        k = open_known.get((ctx.prop, sig))
        if k is not None:
            print("KNOWN-FINDING: property=%s %s [%s]" % (ctx.prop, k.get("what", what), sig))
            matched_known.append(sig)
            continue
        path = os.path.join(ROOT, "replays", ctx.prop, hhex(sig) + ".json")
        with open(path, "w") as f:
            json.dump({"property": ctx.prop, "signature": sig, "what": what, "job": job}, f, indent=1, ensure_ascii=False)
        print("VIOLATION property=%s replay=%s" % (ctx.prop, path))
        print("  signature: %s" % sig)
        print("  what: %s" % what[:600])
        nviol += 1
        rc = 1
    if unconfirmed:
        ctx.notes.append("candidates not reproduced alone (not reported): %s" % unconfirmed[:5])
    if rc == 0 and ctx.inconclusive:
        rc = 3
        for why in ctx.inconclusive:
            print("INCONCLUSIVE property=%s %s" % (ctx.prop, why))
    if not replay_mode:
        write_evidence(ctx, nviol, matched_known)
    return rc


def write_evidence(ctx, nviol, matched_known):
    cov = dict(ctx.cov)
    cov.setdefault("evaluations", 0)
    cov.setdefault("distinct_nontrivial", 0)
    cov.setdefault("rule", "")
    cov.setdefault("samples", [])
    if not cov["samples"]:
        cov["samples"] = [{"note": "no case was completed by this run (inconclusive)"}]
    cov["known_findings_matched"] = matched_known
    if ctx.notes:
        cov["notes"] = ctx.notes
    if ctx.inconclusive:
        cov["inconclusive"] = ctx.inconclusive
    if ctx.level == "translation_validation":
        cov.setdefault("programs", cov["evaluations"])
        cov.setdefault("disagreements_checked", 0)
    ev = {
        "property_id": ctx.prop,
        "tier": ctx.tier,
        "seed": ctx.seed,
        "level": ctx.level,
        "coverage": cov,
        "assumptions": ctx.assumptions,
        "wall_s": round(time.time() - ctx.t0, 2),
        "violations": nviol,
    }
    os.makedirs(os.path.join(ROOT, "evidence"), exist_ok=True)
    if not cov["evaluations"]:
        # nothing was observed (the harness did not build, say): that is no evidence at all, and a
        # document with zero evaluations does not validate. The run is reported as inconclusive
        # on stdout and by the exit code; the last run that observed something stays on file.
        print("NOTE property=%s nothing was evaluated: evidence/%s.json left as the last completed run wrote it" % (ctx.prop, ctx.prop))
        return
    with open(os.path.join(ROOT, "evidence", ctx.prop + ".json"), "w") as f:
        json.dump(ev, f, indent=1, ensure_ascii=False)


# ------------------------------------------------------------------------------------------
# helpers shared by oracles

ERR_KINDS = {
    "error: indexed past the end of an array": "oob",
    "error: integer overflow/underflow": "overflow",
    "error: division by zero": "divzero",
}


def parse_vm_error(text):
    """VmError Display text -> (kind, panic message or None, [(file, line, function)...])."""
    if text is None:
        return None
    lines = text.split("\n")
    head = lines[0]
    kind = ERR_KINDS.get(head)
    msg = None
    # a panic message may itself contain newlines: find the traceback marker from the end
    try:
        tb = len(lines) - 1 - lines[::-1].index("[traceback]")
    except ValueError:
        tb = len(lines)
    if kind is None:
        full = "\n".join(lines[:tb])
        if full.startswith("panic: `") and full.endswith("`"):
            kind = "panic"
            msg = full[len("panic: `"):-1]
        else:
            kind = "internal:" + head
    locs = []
    for l in lines[tb + 1:]:
        l = l.strip()
        if not l:
            continue
        # "<file>:<line>   in `<fn>`"
        try:
            left, fn = l.rsplit(" in `", 1)
            fn = fn[:-1] if fn.endswith("`") else fn
            fl = left.strip()
            f, ln = fl.rsplit(":", 1)
            locs.append((f, int(ln), fn))
        except Exception:
            locs.append((l, -1, "?"))
    return kind, msg, locs


def run_outcome(r):
    """Normalised observable outcome of one run result: (status, output, top, errkind, errmsg)."""
    st = r.get("status")
    if st == "error":
        k = parse_vm_error(r.get("err"))
        return ("error", r.get("output"), None, k[0], k[1])
    if st == "panic":
        return ("panic", r.get("output"), None, (r.get("panic") or {}).get("msg"), None)
    return (st, r.get("output"), r.get("top"), None, None)


def panic_sig(p):
    """call-site signature of a Rust panic: source file + message with numbers/names blurred."""
    import re
    if not p:
        return "panic@?"
    loc = p.get("loc", "")
    f = loc.rsplit(":", 1)[0].replace("/repo/", "")
    msg = p.get("msg", "").split("\n")[0]
    msg = re.sub(r"\d+", "N", msg)[:100]
    func = p.get("func") or ""
    if func:
        # call site = innermost function of the code under test on the panicking stack (robust to line shifts)
        return "panic@%s:%s" % (func, msg)
    return "panic@%s:%s:%s" % (f, loc.rsplit(":", 1)[-1], msg)


def crash_of(res):
    """internal fault of a job result as (sig, what) or None: executor crash / timeout /
    harness panic."""
    if "crash" in res:
        return ("abort:rc=%s" % res["crash"].get("rc"), "process aborted: " + res["crash"].get("stderr", "")[-300:])
    if "harness_panic" in res:
        return (panic_sig(res["harness_panic"]), "panic outside the guarded region: %s" % res["harness_panic"])
    return None
