#!/bin/bash
# Runs the repository's pinned test suite with the verification hooks OFF (no --features verif).
# Prints a summary line "BASELINE passed=<n> failed=<m>"; exit 0 iff nothing failed.
cd /repo || exit 2
export CARGO_NET_OFFLINE=true
if [ -f /w/lib/nextest.toml ] && cargo nextest --version >/dev/null 2>&1; then
  out=$(cargo nextest run --workspace --no-fail-fast --tool-config-file pb:/w/lib/nextest.toml --profile pb --test-threads 8 --offline 2>&1)
  rc=$?
  echo "$out" | tail -15
  echo "$out" | grep -E "^\s*Summary" | tail -1
else
  out=$(cargo test --workspace --no-fail-fast --offline 2>&1)
  rc=$?
  echo "$out" | grep -E "^test result|FAILED|failed" | tail -30
fi
exit $rc
