#!/bin/bash
# tools/seedrun.sh <SEED-ID> <CHECK> [tier]: apply seeded change to /repo, run a check, undo.
ID=$1; CHK=$2; TIER=${3:-quick}
cd /repo && git status --short | grep -v '^??' | head -1 | grep -q . && { echo "/repo dirty"; exit 2; }
git -C /repo apply /verif/seeded/$ID/patch.diff || exit 2
cp /verif/evidence/$CHK.json /tmp/evidence.$CHK.bak 2>/dev/null
cd /verif && ./vcheck $CHK --tier $TIER > /tmp/seedrun.$ID.$CHK.log 2>&1; rc=$?
git -C /repo checkout -- .
cp /tmp/evidence.$CHK.bak /verif/evidence/$CHK.json 2>/dev/null  # evidence is for the unchanged tree only
echo "seed=$ID check=$CHK tier=$TIER rc=$rc $(grep -c '^VIOLATION' /tmp/seedrun.$ID.$CHK.log) violations; $(tail -1 /tmp/seedrun.$ID.$CHK.log)"
grep -m2 -A2 '^VIOLATION' /tmp/seedrun.$ID.$CHK.log | head -8
