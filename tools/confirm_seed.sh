#!/bin/bash
# tools/confirm_seed.sh <id-lower> : confirm a sub-agent's change in its scratch worktree
# (patch applies, demo differs with/without the change, the existing test suite passes with it),
# then keep it under /verif/seeded/<ID>/ and remove the worktree.
id=$1; WT=/tmp/wt/$id; OUT=$WT/OUT; ID=$(echo $id | tr a-z A-Z)
cd $WT || exit 2
git checkout -- . 2>/dev/null
git apply --check $OUT/patch.diff || { echo "PATCH DOES NOT APPLY"; exit 1; }
export CARGO_TARGET_DIR=$WT/target CARGO_NET_OFFLINE=true
demo=$OUT/demo.abra
run_demo() { if [ -f $demo ]; then timeout 120 $WT/target/debug/abra --standard-modules $WT/modules $demo 2>&1; echo "exit=$?"; fi; }
cargo build --offline -q -p abra_cli 2>&1 | tail -3
run_demo > /tmp/wt/$id.clean.txt
git apply $OUT/patch.diff
cargo build --offline -q -p abra_cli 2>&1 | tail -3
run_demo > /tmp/wt/$id.broken.txt
if cmp -s /tmp/wt/$id.clean.txt /tmp/wt/$id.broken.txt; then echo "DEMO DOES NOT DISTINGUISH (cli)"; else echo "demo distinguishes: OK"; fi
echo "--- running test suite with the change"
cargo test --workspace --no-fail-fast --offline > /tmp/wt/$id.tests.txt 2>&1
echo "tests: $(grep -c '^test result: ok' /tmp/wt/$id.tests.txt) suites ok, $(grep -cE '^test result: FAILED|^error' /tmp/wt/$id.tests.txt) failed/errors, passed=$(grep '^test result' /tmp/wt/$id.tests.txt | sed 's/.*ok. \([0-9]*\) passed.*/\1/' | paste -sd+ | bc)"
git checkout -- .
mkdir -p /verif/seeded/$ID
cp -r $OUT/* /verif/seeded/$ID/
cp /tmp/wt/$id.clean.txt /verif/seeded/$ID/confirm_clean.txt; cp /tmp/wt/$id.broken.txt /verif/seeded/$ID/confirm_broken.txt
