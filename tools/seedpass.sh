#!/bin/bash
# tools/seedpass.sh <seed> [ids...]: quick tier of every check at another VERIF_SEED, one after the other; the
# evidence file of each check is put back afterwards (committed evidence is from seed 1)
SEED=$1; shift
ids="$@"; [ -z "$ids" ] && ids=$(python3 -c "import json;print(' '.join(c['property_id'] for c in json.load(open('/verif/MANIFEST.json'))['checks']))")
cd /verif
for c in $ids; do
  cp evidence/$c.json /tmp/evidence.seedpass.$SEED.$c.bak 2>/dev/null
  VERIF_SEED=$SEED ./vcheck $c --tier quick 2>&1 | grep -aE "^VIOLATION|signature|^INCONC|tier=quick" | cut -c1-260
  cp /tmp/evidence.seedpass.$SEED.$c.bak evidence/$c.json 2>/dev/null
done
