#!/bin/bash
# tools/seedrun_iso.sh <SEED-ID> <CHECK> [tier]: like seedrun.sh, but leaves /repo and /verif alone:
# a scratch worktree of /repo with the seeded change and a scratch copy of /verif are bind-mounted
# over /repo and /verif inside a private mount namespace, the check runs there, both are removed.
ID=$1; CHK=$2; TIER=${3:-quick}
D=/tmp/iso/$ID.$CHK; rm -rf $D; mkdir -p $D
git -C /repo worktree add -q --detach $D/repo HEAD || exit 2
git -C $D/repo apply /verif/seeded/$ID/patch.diff || { git -C /repo worktree remove --force $D/repo; exit 2; }
rsync -a --exclude work --exclude replays --exclude .git --exclude target-asan /verif/ $D/verif/
unshare -m bash -c "mount --bind $D/repo /repo && mount --bind $D/verif /verif && cd /verif && ./vcheck $CHK --tier $TIER" > /tmp/seedrun.$ID.$CHK.log 2>&1; rc=$?
echo "seed=$ID check=$CHK tier=$TIER rc=$rc $(grep -ac '^VIOLATION' /tmp/seedrun.$ID.$CHK.log) violations; $(tail -1 /tmp/seedrun.$ID.$CHK.log | cut -c1-200)"
grep -a -m2 -A2 '^VIOLATION' /tmp/seedrun.$ID.$CHK.log | cut -c1-300 | head -8
git -C /repo worktree remove --force $D/repo; rm -rf $D
