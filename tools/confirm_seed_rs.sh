#!/bin/bash
# tools/confirm_seed_rs.sh <id-lower> <crate>: confirm a seed whose demonstration is a Rust test file
# OUT/demo_test.rs for <crate> (dropped into <crate>/tests/): fails with the patch, passes without,
# and the existing suite passes with the patch. Then keep it under /verif/seeded/<ID>/.
id=$1; crate=$2; WT=/tmp/wt/$id; OUT=$WT/OUT; ID=$(echo $id | tr a-z A-Z)
cd $WT || exit 2
git checkout -- . 2>/dev/null
git apply --check $OUT/patch.diff || { echo "PATCH DOES NOT APPLY"; exit 1; }
export CARGO_TARGET_DIR=$WT/target CARGO_NET_OFFLINE=true
mkdir -p $crate/tests; cp $OUT/demo_test.rs $crate/tests/verif_demo_test.rs
cargo test --offline -p $crate --test verif_demo_test > /tmp/wt/$id.clean.txt 2>&1; rc_clean=$?
git apply $OUT/patch.diff
cargo test --offline -p $crate --test verif_demo_test > /tmp/wt/$id.broken.txt 2>&1; rc_broken=$?
echo "demo test: clean rc=$rc_clean broken rc=$rc_broken $([ $rc_clean = 0 ] && [ $rc_broken != 0 ] && echo 'distinguishes: OK' || echo 'DOES NOT DISTINGUISH')"
rm -f $crate/tests/verif_demo_test.rs
cargo test --workspace --no-fail-fast --offline > /tmp/wt/$id.tests.txt 2>&1
echo "tests: $(grep -c '^test result: ok' /tmp/wt/$id.tests.txt) suites ok, $(grep -cE '^test result: FAILED|^error' /tmp/wt/$id.tests.txt) failed/errors"
git checkout -- .
mkdir -p /verif/seeded/$ID; cp -r $OUT/* /verif/seeded/$ID/
tail -15 /tmp/wt/$id.clean.txt > /verif/seeded/$ID/confirm_clean.txt; tail -25 /tmp/wt/$id.broken.txt > /verif/seeded/$ID/confirm_broken.txt
