#!/bin/bash
# tools/seedmatrix.sh [ids...]: for every seeded change, apply it to /repo, run the owning check (quick), undo; print one line each.
cd /verif
ids="$@"; [ -z "$ids" ] && ids=$(ls seeded | grep -E '^C[0-9]+$')
for id in $ids; do
  [ -f seeded/$id/patch.diff ] || continue
  git -C /repo status --short | grep -v '^??' | head -1 | grep -q . && { echo "/repo dirty"; exit 2; }
  if ! git -C /repo apply --check /verif/seeded/$id/patch.diff 2>/dev/null; then echo "$id PATCH-DOES-NOT-APPLY"; continue; fi
  git -C /repo apply /verif/seeded/$id/patch.diff
  cp /verif/evidence/$id.json /tmp/evidence.$id.bak 2>/dev/null
  ./vcheck $id --tier quick > /tmp/seedmatrix.$id.log 2>&1; rc=$?
  git -C /repo checkout -- .
  cp /tmp/evidence.$id.bak /verif/evidence/$id.json 2>/dev/null
  echo "$id rc=$rc violations=$(grep -ac '^VIOLATION' /tmp/seedmatrix.$id.log) first=$(grep -a -m1 'signature:' /tmp/seedmatrix.$id.log | cut -c1-140)"
done
