#!/bin/bash
# tools/allchecks.sh [tier] [seed] [ids...]: run every check (or the given ones) one after the other; one line each
TIER=${1:-quick}; SEED=${2:-1}; shift 2 2>/dev/null
ids="$@"; [ -z "$ids" ] && ids=$(python3 -c "import json;print(' '.join(c['property_id'] for c in json.load(open('/verif/MANIFEST.json'))['checks']))")
cd /verif
for c in $ids; do
  VERIF_SEED=$SEED /usr/bin/time -f "%e s" ./vcheck $c --tier $TIER 2>&1 | grep -aE "^VIOLATION|signature|^KNOWN|^INCONC|^NOTE|tier=$TIER| s$" | cut -c1-260
done
