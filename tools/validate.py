#!/opt/veriftools/pyvenv/bin/python
"""validate MANIFEST.json and all evidence files against the schemas"""
import json, glob, sys, jsonschema
ok = True
m = json.load(open('/verif/MANIFEST.json'))
try:
    jsonschema.validate(m, json.load(open('/root/.vp/MANIFEST.schema.json')))
    print("MANIFEST valid: %d checks, %d n/a" % (len(m['checks']), len(m['not_applicable'])))
except Exception as e:
    ok = False; print("MANIFEST INVALID:", str(e)[:500])
es = json.load(open('/root/.vp/EVIDENCE.schema.json'))
for f in sorted(glob.glob('/verif/evidence/*.json')):
    try:
        jsonschema.validate(json.load(open(f)), es)
    except Exception as e:
        ok = False; print("EVIDENCE INVALID", f, str(e)[:300])
print("evidence files:", len(glob.glob('/verif/evidence/*.json')))
sys.exit(0 if ok else 1)
