#!/usr/bin/env python3
"""tools/try.py file.abra [k | json-run-spec]  - compile+run one program through the executor, print outcome"""
import json, sys, os
sys.path.insert(0, os.path.dirname(os.path.dirname(os.path.abspath(__file__))))
import vlib
src = open(sys.argv[1]).read() if sys.argv[1] != "-" else sys.stdin.read()
run = {}
if len(sys.argv) > 2:
    a = sys.argv[2]
    run = json.loads(a) if a.startswith("{") else {"budget": {"k": int(a)}}
ex = vlib.Executor("try")
r = ex.run_alone({"id": "t", "files": {"main.abra": src}, "std": True, "runs": [run]})
c = r.get("compile")
if not c or not c.get("ok"):
    print("COMPILE:", (c or r).get("errors") or c or r)
else:
    x = r["runs"][0]
    print("status=%s top=%s steps=%s calls=%s" % (x["status"], x["top"], x["steps"], x["calls"]))
    print("output:", x["output"])
    if x["err"]: print("err:", x["err"])
    if x["panic"]: print("panic:", x["panic"])
    if x["viol"]: print("viol:", x["viol"])
    print("gc:", x["gc"])
