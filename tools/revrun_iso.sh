#!/bin/bash
# tools/revrun_iso.sh <fix-commit> <CHECK> [tier]: does CHECK report the defect that <fix-commit>
# repaired? The fix is reverse-applied to a scratch worktree of /repo's HEAD; that worktree and a
# scratch copy of /verif are bind-mounted over /repo and /verif in a private mount namespace.
C=$1; CHK=$2; TIER=${3:-quick}
D=/tmp/iso/rev.$C.$CHK; rm -rf $D; mkdir -p $D
git -C /repo worktree add -q --detach $D/repo HEAD || exit 2
git -C /repo diff $C~1 $C > $D/fix.diff
git -C $D/repo apply -R $D/fix.diff || { echo "fix $C does not reverse-apply"; git -C /repo worktree remove --force $D/repo; exit 2; }
rsync -a --exclude work --exclude replays --exclude .git --exclude target-asan /verif/ $D/verif/
unshare -m bash -c "mount --bind $D/repo /repo && mount --bind $D/verif /verif && cd /verif && ./vcheck $CHK --tier $TIER" > /tmp/revrun.$C.$CHK.log 2>&1; rc=$?
echo "reverted=$C check=$CHK tier=$TIER rc=$rc $(grep -ac '^VIOLATION' /tmp/revrun.$C.$CHK.log) violations; $(tail -1 /tmp/revrun.$C.$CHK.log | cut -c1-200)"
grep -a -A2 '^VIOLATION' /tmp/revrun.$C.$CHK.log | grep -a "signature" | sed 's/ [0-9a-f]\{8,\}$//' | sort | uniq -c | sort -rn | head -8
git -C /repo worktree remove --force $D/repo; rm -rf $D
