#!/usr/bin/env python3
"""tools/gentest.py N [seed] - generate N programs, run them, compare with the reference interpreter"""
import sys, os, json, collections
sys.path.insert(0, os.path.dirname(os.path.dirname(os.path.abspath(__file__))))
import vlib
from checks import progen
n = int(sys.argv[1]); seed = int(sys.argv[2]) if len(sys.argv) > 2 else 1
rng = vlib.Rng(seed)
jobs, progs = [], {}
for i in range(n):
    r = rng.fork(i)
    try:
        prog = progen.gen_program(r, {"jumps_in_operands": False})
        src, _ = progen.emit(prog)
    except Exception as e:
        import traceback; traceback.print_exc(); continue
    jid = "g%05d" % i
    progs[jid] = (prog, src)
    jobs.append({"id": jid, "files": {"main.abra": src}, "runs": [{"max_steps": 500000}]})
ex = vlib.Executor("gentest")
res = ex.run(jobs)
stat = collections.Counter()
rej = collections.Counter()
shown = 0
for jid, (prog, src) in progs.items():
    r = res[jid]
    c = r.get("compile", {})
    if not c.get("ok"):
        stat["rejected" if not c.get("panic") else "compile-panic"] += 1
        msg = (c.get("errors") or str(c.get("panic")))
        key = [l for l in msg.split("\n") if l.startswith("error")][:1] or [msg[:80]]
        rej[key[0][:100]] += 1
        if shown < int(os.environ.get("SHOW", "3")):
            shown += 1
            print("=" * 30, jid); print(src); print(msg[:1500])
        continue
    try:
        ref = progen.interpret(prog)
    except progen.Unsupported as e:
        stat["unsupported:" + str(e)[:20]] += 1
        continue
    except RecursionError:
        stat["ref-recursion"] += 1; continue
    run = r["runs"][0]
    o = vlib.run_outcome(run)
    exp_err = ref["err"]
    ok = True
    why = ""
    if exp_err:
        if not (o[0] == "error" and o[3] == exp_err[0] and (exp_err[0] != "panic" or o[4] == exp_err[1]) and o[1] == ref["output"]):
            ok = False; why = "expected error %s output %r" % (exp_err, ref["output"][-80:])
    else:
        if o[0] != "done" or o[1] != ref["output"]:
            ok = False; why = "expected done output %r" % ref["output"][-200:]
        elif prog["final_ty"] and progen.render_top(ref["final"]) != o[2]:
            ok = False; why = "final %r vs %r" % (progen.render_top(ref["final"]), o[2])
    stat["agree" if ok else "DISAGREE"] += 1
    if not ok and shown < int(os.environ.get("SHOW", "3")) + 3:
        shown += 1
        print("#" * 30, jid, why); print(src); print("observed:", o[:1], repr(o[1][-200:]), o[2:]); print(run.get("panic"))
print(stat); print(rej.most_common(12))
